"""C16 — all four input syntaxes (DSL, JSON, YAML, TOML) yield the same driver.

Two ties on every run (coq/props/C16.v holds the theorems about the two LOWERINGS, Front.v):

(i)  TEXT-LEVEL tie (the text parsers syn / serde_json / yaml-rust2 / toml and dd-manifest-tree's integer forms are
     NOT modelled, only exercised): one abstract definition is rendered into the four syntaxes with random equivalent
     spellings and fed to the REAL transform_*; compared across the four: accept/reject, tokens_hash (FNV of the
     emitted token string), the Debug string of the MIR each front end produced, and for rejections the error class.
(ii) MODEL tie: the same abstract definition is rendered to a Coq `adef` term; Coq evaluates
     show_result (lower_dsl (to_dsl d)) and show_result (lower_manifest (to_manifest d)) (Front.v, MirShow.v) and
     python prints the REAL MIR (rustdebug.parse) in the same canonical format; compared for both front ends.
"""
import collections, copy, hashlib, itertools, json, os, random, re, subprocess
import vlib, adef, gendev, rustdebug, errmap
from checks import gen_common

SYNTAXES = ("dsl", "json", "yaml", "toml")

RULE = ("abstract definitions (python adef) from five streams — (A) systematic sweep over every combination of the five "
        "global defaults (register/field/buffer access incl. absent, byte order, bit order) on a device that exposes each "
        "default, address types / name_word_boundaries (array and string form) / defmt_feature cycled; (B) random devices "
        "from tools/gendev.py (all object kinds, nesting, repeats on registers/commands/blocks, refs of every kind with "
        "overrides, conversions, inline enums with every value kind, reset ints/arrays, overlap flags, cfg and doc strings "
        "on objects/fields/variants); (C) malformed definitions (front-end rejections: missing address/size, ref of "
        "buffer/ref, forbidden override items, non-bool single address; pass-level rejections by mutation); (D) DSL texts "
        "with a duplicated item; (E) reset integers in [2^63,2^64) — each rendered to DSL/JSON/YAML/TOML with random "
        "spellings (RW/ReadWrite, a..b / a..=b, hex/binary/octal/underscored integers, DSL item order, manifest key "
        "order, variant as bare value or map, null / {} / absent value, basic command form) and run through the REAL "
        "transform_* and _private_transform_*_mir; text tie = status, tokens_hash, MIR Debug string and error class "
        "identical across the four; model tie = Coq lower_dsl(to_dsl d) and lower_manifest(to_manifest d) printed by "
        "MirShow.show_result vs the real MIR of the DSL and of the JSON front end printed in the same format. "
        "distinct = distinct abstract definitions (json of the adef)")

# ---------------------------------------------------------------------------------------------------------------
# generation
# ---------------------------------------------------------------------------------------------------------------

CFG_POOL = ["foo", 'feature = "x"', "not(foo)", 'all(foo, feature = "y")', 'any(unix, windows)']
DOC_POOL = ["A thing", " leading space kept", "two\nlines", "Quote \" and \\ backslash", "tab\there",
            "first paragraph\n\nsecond paragraph", "trailing blank line\n", "\nleading blank line", "a\n\n\nb", ""]
ACCESSES = [None, "RW", "RO", "WO"]


def sweep_device(cfgvals, k):
    """A small device on which every global default is observable."""
    dra, dfa, dba, dbyo, dbio = cfgvals
    types = adef.INTEGER_TYPES
    cfg = adef.mk_config(default_register_access=dra, default_field_access=dfa, default_buffer_access=dba,
                         default_byte_order=dbyo, default_bit_order=dbio,
                         register_address_type=types[k % 7], command_address_type=types[(k // 7) % 7],
                         buffer_address_type=types[(k // 49) % 7])
    nwb = k % 4
    if nwb == 1:
        cfg["name_word_boundaries"] = [adef.BOUNDARIES[(k + j) % 10] for j in range(1 + k % 3)]
    elif nwb == 2:
        cfg["name_word_boundaries"] = ["aA", "a1:A1", "_:-", "aA:AAa: "][k % 4]
    elif nwb == 3:
        cfg["name_word_boundaries"] = []
    if k % 3 == 1:
        cfg["defmt_feature"] = "defmt"
    elif k % 3 == 2:
        cfg["defmt_feature"] = "my-defmt"
    # a register that takes every default, one that overrides each, a command, a buffer of each kind, a ref
    size = 16 if dbyo is not None else 8
    f = [adef.mk_field("alpha", "uint", 0, 4), adef.mk_field("beta", "bool", 4), adef.mk_field("gamma", "int", 5, 8, access="RW")]
    objs = [
        adef.mk_register("Ra", 1, size, f),
        adef.mk_register("Rb", 2, 8, [adef.mk_field("alpha", "uint", 0, 8, access="RO")], access="RW", byte_order="BE",
                         bit_order="LSB0" if k % 2 else "MSB0"),
        adef.mk_command("Ca", 3, size_bits_in=8, fields_in=[adef.mk_field("delta", "uint", 1, 3)]),
        adef.mk_command("Cb", 4, basic=True),
        adef.mk_buffer("Ba", 5),
        adef.mk_buffer("Bb", 6, access="RO"),
        adef.mk_ref("Rc", "Ra", {"kind": "register", "address": 7}),
        adef.mk_block("Bl", [adef.mk_register("Rd", 0, 8, [adef.mk_field("eps", "uint", 2, 6)]), adef.mk_buffer("Bc", 1)],
                      address_offset=20),
    ]
    return {"config": cfg, "objects": objs}


def decorate(d, rng):
    """Add the features gendev does not produce: cfg / doc strings everywhere, overlap flags, variant cfg/doc,
    ref override extras, name_word_boundaries, defmt feature, explicit range forms."""
    cfg = d["config"]
    r = rng.random()
    if r < 0.15:
        cfg["name_word_boundaries"] = rng.sample(adef.BOUNDARIES, rng.randrange(0, 5))
    elif r < 0.3:
        cfg["name_word_boundaries"] = rng.choice(["aA", "a1:A1:_", "-: ", "aA:AAa:_:-: :a1:A1", ""])
    if rng.random() < 0.2:
        cfg["defmt_feature"] = rng.choice(["defmt", "my-defmt"])
    if rng.random() < 0.15:
        cfg["default_register_access"] = "WO"
    if rng.random() < 0.15:
        cfg["default_field_access"] = "WO"
    # names that mean something at ANOTHER place of a manifest are ordinary object names inside a block: `config` is the
    # global-config entry of the top-level map only (seed C16-10 skipped it in every object map); `objects` and
    # `address_offset` are keys of a block map, not of its `objects` map
    if rng.random() < 0.15:
        targets = {o["target"] for o, _ in adef.walk(d["objects"]) if o["kind"] == "ref"}
        inner = [x for o, _ in adef.walk(d["objects"]) if o["kind"] == "block" for x in o["objects"]
                 if x["kind"] in ("register", "command", "buffer") and x["name"] not in targets]
        if inner:
            x = rng.choice(inner)
            new = rng.choice(["config", "config", "objects", "address_offset"])      # (not `type`: a Rust keyword cannot be a DSL name)
            taken = {strip.lower() for strip in (o["name"] for o, _ in adef.walk(d["objects"]))}
            if new not in taken:
                x["name"] = new
    for o, _ in adef.walk(d["objects"]):
        if rng.random() < 0.2:
            o["cfg"] = rng.choice(CFG_POOL)
        if rng.random() < 0.3:
            o["doc"] = rng.choice(DOC_POOL)
        if o["kind"] in ("register", "command") and not o.get("basic"):
            if rng.random() < 0.2:
                o["allow_bit_overlap"] = rng.choice([True, False])
            if rng.random() < 0.2:
                o["allow_address_overlap"] = rng.choice([True, False])
        if o["kind"] == "ref":
            ov = o["override"]
            if ov["kind"] in ("register", "command") and rng.random() < 0.3:
                ov["allow_address_overlap"] = rng.choice([True, False])
            if ov["kind"] == "block" and rng.random() < 0.3:
                ov["repeat"] = {"count": rng.choice([1, 2]), "stride": rng.choice([1000, 2000])}
        for _, fs in adef.field_sets(o):
            for fl in fs:
                if rng.random() < 0.15:
                    fl["cfg"] = rng.choice(CFG_POOL)
                if rng.random() < 0.25:
                    fl["doc"] = rng.choice(DOC_POOL)
                c = fl["conv"]
                if c and c["type"] == "enum":
                    for v in c["variants"]:
                        if rng.random() < 0.15:
                            v["cfg"] = rng.choice(CFG_POOL)
                        if rng.random() < 0.25:
                            v["doc"] = rng.choice(DOC_POOL)
    return d


def clamp_i63(d):
    """Reset integers must be < 2^63 to be expressible as an integer in YAML and TOML (i64 value trees)."""
    for o, _ in adef.walk(d["objects"]):
        if o["kind"] == "register" and isinstance(o.get("reset_value"), int) and o["reset_value"] >= 2 ** 63:
            o["reset_value"] >>= 1 + (o["reset_value"].bit_length() - 64 if o["reset_value"].bit_length() > 64 else 0)
    return d


FULL_PROFILE = dict(wo_fields=True, neg_stride=True, block_refs=True, docs=False, manifest_expressible=True, generic_convs=True)


def gen_random(rng):
    d = gendev.gen_device(rng, gendev.Profile(**FULL_PROFILE))
    return clamp_i63(decorate(d, rng))


def all_objects_with_parent(objs):
    for i, o in enumerate(objs):
        yield objs, i, o
        if o["kind"] == "block":
            yield from all_objects_with_parent(o["objects"])


MALFORMED_KINDS = ["missing_address", "missing_size", "missing_cmd_address", "missing_buf_address", "ref_buffer", "ref_ref",
                   "ovr_byte_order", "ovr_bit_order", "ovr_size_bits", "ovr_allow_bit_overlap", "ovr_fields", "ovr_cfg",
                   "ovr_doc", "ovr_block_objects", "ovr_cmd_size_in", "ovr_cmd_fields_in", "nonbool_single",
                   "overlap_fields", "dup_object_nested", "no_byte_order", "no_address_type", "address_too_high",
                   "enum_not_covered", "enum_two_defaults", "bool_two_bits", "field_exceeds", "reset_too_big",
                   "ref_unknown", "bool_conv"]


def gen_malformed(rng, kind=None):
    """A valid random device with exactly one defect injected (sometimes two)."""
    d = gendev.gen_device(rng, gendev.Profile(wo_fields=True, neg_stride=True, block_refs=True, manifest_expressible=True,
                                              max_objects=4))
    clamp_i63(d)
    kind = kind or rng.choice(MALFORMED_KINDS)
    objs = d["objects"]
    names = {o["name"] for o, _ in adef.walk(objs)}
    fresh = [n for n in ["Xa", "Xb", "Xc", "Xd"] if n not in names]

    def pick(k):
        c = [o for o, _ in adef.walk(objs) if o["kind"] == k and not o.get("basic")]
        return rng.choice(c) if c else None

    def ensure_register():
        r = pick("register")
        if r is None:
            r = adef.mk_register(fresh.pop(), 200, 8, [adef.mk_field("alpha", "uint", 0, 4)])
            objs.append(r)
        return r

    reg = ensure_register()
    if kind == "missing_address":
        reg["address"] = None
    elif kind == "missing_size":
        reg["size_bits"] = None
    elif kind == "missing_cmd_address":
        c = pick("command") or adef.mk_command(fresh.pop(), 0, size_bits_in=8)
        if c not in [o for o, _ in adef.walk(objs)]:
            objs.append(c)
        c["address"] = None
    elif kind == "missing_buf_address":
        b = pick("buffer") or adef.mk_buffer(fresh.pop(), 0)
        if b not in [o for o, _ in adef.walk(objs)]:
            objs.append(b)
        b["address"] = None
    elif kind == "ref_buffer":
        objs.append(adef.mk_ref(fresh.pop(), "Zz", {"kind": "buffer", "access": rng.choice([None, "RO"]), "address": rng.choice([None, 3])}))
    elif kind == "ref_ref":
        objs.append(adef.mk_ref(fresh.pop(), "Zy", {"kind": "ref", "target": reg["name"], "override": {"kind": "register", "address": 3}}))
    elif kind.startswith("ovr_"):
        ov = {"kind": "register", "address": 250}
        what = kind[4:]
        if what == "byte_order":
            ov["byte_order"] = "LE"
        elif what == "bit_order":
            ov["bit_order"] = "MSB0"
        elif what == "size_bits":
            ov["size_bits"] = 8
        elif what == "allow_bit_overlap":
            ov["allow_bit_overlap"] = True
        elif what == "fields":
            ov["fields"] = [adef.mk_field("zeta", "uint", 0, 1)]
        elif what == "cfg":
            ov["cfg"] = "foo"
        elif what == "doc":
            ov["doc"] = "not allowed"
        elif what == "block_objects":
            ov = {"kind": "block", "address_offset": 9000, "objects": [adef.mk_buffer("Zb", 1)]}
        elif what == "cmd_size_in":
            ov = {"kind": "command", "address": 250, "size_bits_in": 8}
        elif what == "cmd_fields_in":
            ov = {"kind": "command", "address": 250, "fields_in": [adef.mk_field("zeta", "uint", 0, 1)]}
        objs.append(adef.mk_ref(fresh.pop(), reg["name"], ov))
    elif kind == "nonbool_single":
        reg["fields"] = [adef.mk_field("alpha", rng.choice(["uint", "int"]), rng.randrange(0, reg["size_bits"]), None)]
    elif kind == "overlap_fields":
        reg["size_bits"] = max(reg["size_bits"], 8)
        reg["fields"] = [adef.mk_field("alpha", "uint", 0, 5), adef.mk_field("beta", "uint", 4, 8)]
        reg["allow_bit_overlap"] = rng.choice([None, False])
        reg["reset_value"] = None
    elif kind == "dup_object_nested":
        objs.append(adef.mk_block(fresh.pop(), [adef.mk_buffer(reg["name"], 9)], address_offset=3000))
    elif kind == "no_byte_order":
        d["config"]["default_byte_order"] = None
        reg["size_bits"] = 16
        reg["byte_order"] = None
        reg["reset_value"] = None
    elif kind == "no_address_type":
        d["config"][rng.choice(["register_address_type", "command_address_type", "buffer_address_type"])] = None
    elif kind == "address_too_high":
        d["config"]["register_address_type"] = "u8"
        reg["address"] = 300
    elif kind in ("enum_not_covered", "enum_two_defaults"):
        reg["size_bits"] = max(reg["size_bits"], 8)
        vs = [adef.mk_variant("Va"), adef.mk_variant("Vb")] if kind == "enum_not_covered" else \
             [adef.mk_variant("Va", "default"), adef.mk_variant("Vb", "default")]
        reg["fields"] = [adef.mk_field("alpha", "uint", 0, 4, conv=adef.mk_enum("EnBad", vs, False))]
        reg["reset_value"] = None
    elif kind == "bool_two_bits":
        reg["size_bits"] = max(reg["size_bits"], 8)
        reg["fields"] = [adef.mk_field("alpha", "bool", 1, 3)]
        reg["reset_value"] = None
    elif kind == "bool_conv":
        reg["fields"] = [adef.mk_field("alpha", "bool", 0, None, conv=adef.mk_direct("Ty"))]
        reg["reset_value"] = None
    elif kind == "field_exceeds":
        reg["fields"] = [adef.mk_field("alpha", "uint", 0, reg["size_bits"] + 1)]
    elif kind == "reset_too_big":
        reg["size_bits"] = 7
        reg["fields"] = []
        reg["reset_value"] = rng.choice([128, 255, [128]])
    elif kind == "ref_unknown":
        objs.append(adef.mk_ref(fresh.pop(), "Nope", {"kind": rng.choice(["register", "command", "block"])}))
    if rng.random() < 0.5:
        decorate(d, rng)
        clamp_i63(d)
    return d, kind


def gen_i64_boundary(rng):
    cfg = adef.mk_config(register_address_type="u8", default_byte_order="LE")
    v = rng.choice([2 ** 63, 2 ** 64 - 1, 2 ** 63 + rng.getrandbits(62)])
    return {"config": cfg, "objects": [adef.mk_register("Ra", 0, 64, [], reset_value=v)]}


# ---------------------------------------------------------------------------------------------------------------
# rendering with extra (text-level and structural) spelling variation on top of tools/adef.py
# ---------------------------------------------------------------------------------------------------------------

ITEM_LINE = re.compile(r"^(\s*)(type|const) [A-Za-z_]+ = .*;\s*$")


def shuffle_dsl_items(text, rng):
    """Permute consecutive item lines (`type X = ..;` / `const X = ..;`) of one object: item order is free in the DSL."""
    lines = text.split("\n")
    out, run, indent = [], [], None
    in_config = False
    for ln in lines + [""]:
        m = ITEM_LINE.match(ln)
        if m and (indent is None or m.group(1) == indent):
            run.append(ln)
            indent = m.group(1)
            continue
        if run:
            rng.shuffle(run)
            out.extend(run)
            run, indent = [], None
        if m:
            run.append(ln)
            indent = m.group(1)
        else:
            out.append(ln)
    return "\n".join(out[:-1])


OBJECT_MAP_KEYS = {"type"}


def shuffle_manifest_keys(t, rng, depth=0, kind="device"):
    """Key order inside an object / field / repeat / config map is free; the order of objects, fields and variants is
    NOT (it is the order of the generated items) and is kept."""
    if not isinstance(t, dict):
        return t
    if kind == "device":
        items = [(k, shuffle_manifest_keys(v, rng, depth + 1, "config" if k == "config" else "object")) for k, v in t.items()]
        # the position of `config` among the objects is free
        cfg = [kv for kv in items if kv[0] == "config"]
        rest = [kv for kv in items if kv[0] != "config"]
        if cfg:
            rest.insert(rng.randrange(0, len(rest) + 1), cfg[0])
        return dict(rest)
    if kind in ("config", "repeat", "variant"):
        items = list(t.items())
        rng.shuffle(items)
        return dict(items)
    if kind == "object":
        items = []
        for k, v in t.items():
            if k == "objects":
                v = {n: shuffle_manifest_keys(o, rng, depth + 1, "object") for n, o in v.items()}
            elif k in ("fields", "fields_in", "fields_out"):
                v = {n: shuffle_manifest_keys(f, rng, depth + 1, "field") for n, f in v.items()}
            elif k == "repeat":
                v = shuffle_manifest_keys(v, rng, depth + 1, "repeat")
            elif k == "override":
                v = shuffle_manifest_keys(v, rng, depth + 1, "object")
            items.append((k, v))
        rng.shuffle(items)
        return dict(items)
    if kind == "field":
        items = []
        for k, v in t.items():
            if k in ("conversion", "try_conversion") and isinstance(v, dict):
                v = shuffle_manifest_keys(v, rng, depth + 1, "enum")
            items.append((k, v))
        rng.shuffle(items)
        return dict(items)
    if kind == "enum":
        # name / description may stand anywhere among the variants; the variants keep their relative order
        meta = [(k, v) for k, v in t.items() if k in ("name", "description")]
        vs = [(k, shuffle_manifest_keys(v, rng, depth + 1, "variant") if isinstance(v, dict) else v)
              for k, v in t.items() if k not in ("name", "description")]
        for kv in meta:
            vs.insert(rng.randrange(0, len(vs) + 1), kv)
        return dict(vs)
    return t


def yaml_scalar(v, rng):
    if isinstance(v, adef.Null):
        return rng.choice(["~", "null", ""]) if rng else "~"
    if isinstance(v, bool):
        return "true" if v else "false"
    if isinstance(v, int):
        if rng and v >= 0:
            r = rng.random()
            if r < 0.15:
                return hex(v)
            if r < 0.25:
                return '"' + bin(v) + '"'     # dd-manifest-tree: YAML strings "0b..." are integers
            if r < 0.3:
                return "0o%o" % v
        return str(v)
    return json.dumps(v, ensure_ascii=False)


def yaml_emit(v, ind, rng):
    pad = "  " * ind
    if isinstance(v, dict):
        if not v:
            return " {}\n"
        if rng and rng.random() < 0.1 and all(not isinstance(x, (dict, list)) for x in v.values()) and \
                not any(isinstance(x, adef.Null) for x in v.values()):
            return " {" + ", ".join(f"{json.dumps(k)}: {yaml_scalar(x, rng)}" for k, x in v.items()) + "}\n"
        s = "\n"
        for k, x in v.items():
            key = json.dumps(k) if (rng is None or rng.random() < 0.5 or not re.match(r"^[A-Za-z_][A-Za-z0-9_]*$", k)
                                    or k in ("null", "true", "false", "yes", "no", "on", "off", "y", "n")) else k
            s += f"{pad}{key}:" + yaml_emit(x, ind + 1, rng)
        return s
    if isinstance(v, list):
        return " [" + ", ".join(yaml_scalar(x, rng) for x in v) + "]\n"
    sc = yaml_scalar(v, rng)
    return (" " + sc if sc else "") + "\n"


def full_override(o):
    """The override of a ref as a complete adef object (what tools/adef.py builds for the DSL)."""
    ov = o["override"]
    fake = dict(ov)
    fake["name"] = o["target"]
    fake.setdefault("cfg", None)
    fake.setdefault("doc", None)
    k = ov["kind"]
    if k == "block":
        for key in ("objects", "address_offset", "repeat"):
            fake.setdefault(key, [] if key == "objects" else None)
    elif k == "register":
        for key in ("access", "byte_order", "bit_order", "address", "size_bits", "reset_value", "repeat",
                    "allow_bit_overlap", "allow_address_overlap", "fields"):
            fake.setdefault(key, None)
    elif k == "command":
        for key in ("byte_order", "bit_order", "address", "size_bits_in", "size_bits_out", "repeat",
                    "allow_bit_overlap", "allow_address_overlap", "fields_in", "fields_out", "basic"):
            fake.setdefault(key, None)
    elif k == "buffer":
        fake.setdefault("access", None)
        fake.setdefault("address", None)
    elif k == "ref":
        fake.setdefault("target", "X")
        fake.setdefault("override", {"kind": "register"})
    return fake


def manifest_tree(d, rng):
    """tools/adef.py copies a ref's override dict verbatim into the manifest tree (so `doc`, `fields`, `objects`,
    nested refs are not rendered there); here the override is rendered as the full object it is in both syntaxes."""
    t = adef.to_manifest_tree(d, rng)
    sp = adef.Spell(rng)

    def fix(objs, tmap):
        for o in objs:
            node = tmap.get(o["name"])
            if node is None:
                continue
            if o["kind"] == "block" and o["objects"]:
                fix(o["objects"], node["objects"])
            elif o["kind"] == "ref":
                node["override"] = adef._m_object(full_override(o), sp)

    fix(d["objects"], t)
    return t


def toml_text(t, rng):
    txt = ""
    for name, obj in t.items():
        txt += f"[{json.dumps(name)}]\n"
        for k, v in obj.items():
            txt += f"{json.dumps(k)} = {adef._toml_val(v, rng)}\n"
        txt += "\n"
    return txt


def render_all(d, rng):
    """-> {syntax: text}; rng None = canonical spelling of tools/adef.py."""
    if rng is None:
        t = manifest_tree(d, None)
        return {"dsl": adef.to_dsl(d, None), "json": json.dumps(adef._json_conv(t), indent=1),
                "yaml": yaml_emit(t, 0, None).lstrip("\n") if t else "{}\n", "toml": toml_text(t, None)}
    out = {}
    # boundary names are matched case-insensitively by both front ends
    dd = d
    nwb = d["config"].get("name_word_boundaries")
    if isinstance(nwb, list) and nwb and rng.random() < 0.5:
        dd = copy.deepcopy(d)
        dd["config"]["name_word_boundaries"] = [rng.choice([b, b.lower(), b.upper()]) for b in nwb]
    out["dsl"] = shuffle_dsl_items(adef.to_dsl(dd, rng), rng)
    for s in ("json", "yaml", "toml"):
        t = manifest_tree(dd, rng)
        if rng.random() < 0.7:
            t = shuffle_manifest_keys(t, rng)
        if s == "json":
            out[s] = json.dumps(adef._json_conv(t), indent=rng.choice([None, 1, 2]), ensure_ascii=rng.random() < 0.5)
        elif s == "yaml":
            out[s] = yaml_emit(t, 0, rng).lstrip("\n") if t else "{}\n"
        else:
            out[s] = toml_text(t, rng)
    return out


# ---------------------------------------------------------------------------------------------------------------
# running and comparing
# ---------------------------------------------------------------------------------------------------------------

def run_gen_fast(ctx, exe, cases, tag="c16"):
    """gen_runner --jobs N (output order = input order); falls back to the sequential, abort-tolerant runner."""
    path = os.path.join(ctx.work, f"{tag}_cases.jsonl")
    with open(path, "w") as f:
        for c in cases:
            f.write(json.dumps(c) + "\n")
    res = {}
    try:
        p = subprocess.run([exe, "--jobs", "12", path], stdout=subprocess.PIPE, stderr=subprocess.DEVNULL, timeout=1500)
        lines = p.stdout.decode(errors="replace").splitlines()
        if p.returncode == 0 and len(lines) == len(cases):
            for line in lines:
                r = json.loads(line)
                res[r["id"]] = r
    except (subprocess.TimeoutExpired, json.JSONDecodeError):
        res = {}
    finally:
        try:
            os.remove(path)
        except OSError:
            pass
    if len(res) != len(cases):
        res = gen_common.run_gen(ctx, exe, cases, tag=tag)
    return res


CFG_IN_MIR = re.compile(r'(cfg_attr: Cfg \{\s*value: Some\(\s*)("(?:[^"\\]|\\.)*")')


def norm_mir(m):
    """The DSL stores the cfg as tokens.to_string() (`all (a , b)`), manifests store the raw string (`all(a, b)`): the
    difference is token spacing only and disappears when the cfg is re-tokenised on emission (tokens_hash is compared
    strictly).  Whitespace inside cfg strings is therefore removed before MIR strings are compared."""
    if m is None:
        return None
    return CFG_IN_MIR.sub(lambda g: g.group(1) + re.sub(r"\s+", "", g.group(2)), m)


# error classes shared by the two front ends (DSL message kind / manifest message kind -> class)
def fe_class(r):
    """Class of a FRONT-END rejection, comparable across DSL and manifests; None if the input was not rejected by the
    front end (mir present)."""
    m = r.get("mir") or ""
    if not m.startswith("ERR:"):
        return None
    c = errmap.classify(r.get("message"))
    kind, _, args = c.partition(":")
    a = args.split("|")
    if kind == "dsl_missing":
        what = {"address": "address", "size bits specified": "size_bits", "value": "address"}[a[2]]
        return f"missing:{a[0].lower()}:{what}"
    if kind == "manifest_missing":
        return f"missing:{a[0].lower()}:{a[1]}"
    if kind in ("dsl_ref_buffer", "manifest_ref_buffer"):
        return "ref_buffer"
    if kind in ("dsl_ref_ref", "manifest_ref_ref"):
        return "ref_ref"
    if kind == "dsl_override_forbidden":
        return "override_forbidden"
    if kind == "manifest_unexpected_key" and "Parsing error for 'override'" in (r.get("message") or ""):
        return "override_forbidden"
    if kind == "dsl_nonbool_single":
        return "dsl_nonbool_single"
    msg = (r.get("message") or "")
    if msg == "duplicate item found":
        return "dsl_duplicate_item"
    return "other:" + msg[:60]


def compare4(rs):
    """rs: {syntax: result}. -> (verdict, detail). verdict: 'same-ok' | 'same-reject-pass' | 'same-reject-frontend' |
    'same-panic' | 'doc:<class>' (documented front-end specific difference) | 'DIFF:<what>'"""
    st = {s: rs[s].get("status") for s in SYNTAXES}
    if any(v in ("abort",) for v in st.values()) or any(v == "panic" for v in st.values()):
        if len({(st[s], rs[s].get("message")) for s in SYNTAXES}) == 1:
            return "same-panic", None
        return "DIFF:panic", st
    mirs = {s: norm_mir(rs[s].get("mir")) for s in SYNTAXES}
    fes = {s: fe_class(rs[s]) for s in SYNTAXES}
    if all(f is None for f in fes.values()):
        if len(set(mirs.values())) != 1:
            return "DIFF:mir", None
        if len({rs[s].get("tokens_hash") for s in SYNTAXES}) != 1:
            return "DIFF:tokens", None
        if len({(st[s], rs[s].get("message")) for s in SYNTAXES}) != 1:
            return "DIFF:status", st
        return ("same-ok" if st["dsl"] == "ok" else "same-reject-pass"), None
    if all(f is not None for f in fes.values()):
        if len(set(fes.values())) == 1:
            return "same-reject-frontend", fes["dsl"]
        # the three manifests share one lowering: they must agree exactly
        return "DIFF:frontend-class", fes
    # mixed: some front ends rejected, some produced a MIR
    man = [s for s in ("json", "yaml", "toml")]
    if fes["dsl"] == "dsl_nonbool_single" and all(fes[s] is None for s in man):
        # documented: the manifests deliver start..start, which a later pass rejects (field_empty or an earlier pass)
        if len({mirs[s] for s in man}) == 1 and all(st[s] == "error" for s in man) and \
                len({rs[s].get("message") for s in man}) == 1:
            return "doc:nonbool_single", None
        return "DIFF:nonbool_single-manifest-accepted", st
    return "DIFF:accept-reject", {s: (st[s], fes[s]) for s in SYNTAXES}


def run_texts(ctx, exe, texts_by_id, want=("mir", "noparse")):
    cases = []
    for cid, texts in texts_by_id.items():
        for s in SYNTAXES:
            if s in texts:
                cases.append({"id": f"{cid}|{s}", "syntax": s, "text": texts[s], "name": "Dev", "want": list(want)})
    res = run_gen_fast(ctx, exe, cases)
    out = {}
    for cid, texts in texts_by_id.items():
        out[cid] = {s: res.get(f"{cid}|{s}", {"status": "abort"}) for s in SYNTAXES if s in texts}
    return out


def features(d):
    f = collections.Counter()
    cfg = d["config"]
    for k, v in cfg.items():
        if v is not None:
            f["cfg_" + k + ("_str" if k == "name_word_boundaries" and isinstance(v, str) else "")] += 1
    for o, depth in adef.walk(d["objects"]):
        f["kind_" + o["kind"]] += 1
        if depth:
            f["nested"] += 1
        if o.get("repeat"):
            f["repeat_" + o["kind"]] += 1
        if o.get("cfg"):
            f["cfg_on_object"] += 1
        if o.get("doc"):
            f["doc_on_object"] += 1
        if o.get("basic"):
            f["command_basic"] += 1
        if o.get("allow_bit_overlap") is not None:
            f["allow_bit_overlap"] += 1
        if o.get("allow_address_overlap") is not None:
            f["allow_address_overlap"] += 1
        if o["kind"] == "register":
            rv = o.get("reset_value")
            if rv is not None:
                f["reset_array" if isinstance(rv, list) else "reset_int"] += 1
            for k in ("access", "byte_order", "bit_order"):
                if o.get(k):
                    f["register_" + k] += 1
        if o["kind"] == "ref":
            ov = o["override"]
            f["ref_" + ov["kind"]] += 1
            for k, v in ov.items():
                if k != "kind" and v is not None:
                    f["ref_override_" + k] += 1
        for _, fs in adef.field_sets(o):
            for fl in fs:
                f["field"] += 1
                if fl["access"]:
                    f["field_access"] += 1
                if fl["end"] is None:
                    f["field_single"] += 1
                if fl.get("cfg"):
                    f["cfg_on_field"] += 1
                if fl.get("doc"):
                    f["doc_on_field"] += 1
                c = fl["conv"]
                if c:
                    f["conv_" + c["type"] + ("_try" if c["try"] else "")] += 1
                    if c["type"] == "enum":
                        for v in c["variants"]:
                            val = v["value"]
                            f["variant_" + ("unspecified" if val is None else val if isinstance(val, str) else "int")] += 1
                            if v.get("cfg"):
                                f["cfg_on_variant"] += 1
                            if v.get("doc"):
                                f["doc_on_variant"] += 1
    return f


def config_combo(d):
    c = d["config"]
    return "|".join(str(c.get(k)) for k in ("default_register_access", "default_field_access", "default_buffer_access",
                                              "default_byte_order", "default_bit_order"))


# ---------------------------------------------------------------------------------------------------------------
# shrinking
# ---------------------------------------------------------------------------------------------------------------

def shrink_candidates(d):
    """Smaller definitions: drop one object (any depth), one field, one variant, one config key, one decoration."""
    def paths(objs, prefix):
        for i, o in enumerate(objs):
            yield prefix + [i]
            if o["kind"] == "block":
                yield from paths(o["objects"], prefix + [i, "objects"])

    def get(dd, p):
        cur = dd["objects"]
        for k in p[:-1]:
            cur = cur[k]
        return cur, p[-1]

    for p in list(paths(d["objects"], [])):
        dd = copy.deepcopy(d)
        lst, i = get(dd, p)
        del lst[i]
        yield dd
    for p in list(paths(d["objects"], [])):
        lst, i = get(d, p)
        o = lst[i]
        for key in ("fields", "fields_in", "fields_out"):
            for j in range(len(o.get(key) or [])):
                dd = copy.deepcopy(d)
                l2, i2 = get(dd, p)
                del l2[i2][key][j]
                yield dd
        for key in ("cfg", "doc", "repeat", "reset_value", "allow_bit_overlap", "allow_address_overlap", "access",
                    "bit_order"):
            if o.get(key) is not None:
                dd = copy.deepcopy(d)
                l2, i2 = get(dd, p)
                l2[i2][key] = None
                yield dd
    for k, v in d["config"].items():
        if v is not None:
            dd = copy.deepcopy(d)
            dd["config"][k] = None
            yield dd


def shrink(ctx, exe, d, seed, budget=60):
    """Greedy: keep a smaller definition while the four-way difference persists (same spelling seed)."""
    def differs(dd):
        try:
            texts = render_all(dd, random.Random(seed))
        except Exception:
            return None
        rs = run_texts(ctx, exe, {"s": texts})["s"]
        v, det = compare4(rs)
        if not v.startswith("DIFF"):
            return None
        sig = (v, tuple(rs[s].get("status") for s in SYNTAXES))
        if want[0] is None:
            want[0] = sig
        return (texts, rs, v, det) if sig == want[0] else None

    want = [None]     # the kind of difference and the four statuses must survive the shrinking
    cur = d
    best = differs(cur)
    if best is None:
        return d, None
    rounds = 0
    progress = True
    while progress and rounds < budget:
        progress = False
        for cand in shrink_candidates(cur):
            rounds += 1
            got = differs(cand)
            if got is not None:
                cur, best, progress = cand, got, True
                break
            if rounds >= budget:
                break
    return cur, best


# ---------------------------------------------------------------------------------------------------------------
# stream D: DSL texts with a duplicated item (parser postcondition used by C16_dsl_first_item_wins' discussion)
# ---------------------------------------------------------------------------------------------------------------

DUP_ITEMS = {
    "register": [("type Access = RO;", "type Access = RW;"), ("type ByteOrder = LE;", "type ByteOrder = BE;"),
                 ("type BitOrder = LSB0;", "type BitOrder = MSB0;"), ("const ADDRESS = 1;", "const ADDRESS = 2;"),
                 ("const SIZE_BITS = 8;", "const SIZE_BITS = 16;"), ("const RESET_VALUE = 1;", "const RESET_VALUE = [2];"),
                 ("const REPEAT = { count: 2, stride: 1 };", "const REPEAT = { count: 3, stride: 1 };"),
                 ("const ALLOW_BIT_OVERLAP = true;", "const ALLOW_BIT_OVERLAP = false;"),
                 ("const ALLOW_ADDRESS_OVERLAP = true;", "const ALLOW_ADDRESS_OVERLAP = false;")],
    "command": [("type ByteOrder = LE;", "type ByteOrder = BE;"), ("type BitOrder = LSB0;", "type BitOrder = MSB0;"),
                ("const ADDRESS = 1;", "const ADDRESS = 2;"), ("const SIZE_BITS_IN = 8;", "const SIZE_BITS_IN = 16;"),
                ("const SIZE_BITS_OUT = 8;", "const SIZE_BITS_OUT = 16;"),
                ("const REPEAT = { count: 2, stride: 1 };", "const REPEAT = { count: 3, stride: 1 };"),
                ("const ALLOW_BIT_OVERLAP = true;", "const ALLOW_BIT_OVERLAP = false;"),
                ("const ALLOW_ADDRESS_OVERLAP = true;", "const ALLOW_ADDRESS_OVERLAP = false;")],
    "block": [("const ADDRESS_OFFSET = 1;", "const ADDRESS_OFFSET = 2;"),
              ("const REPEAT = { count: 2, stride: 100 };", "const REPEAT = { count: 3, stride: 100 };")],
}


def dup_item_texts():
    """(id, dsl text with the duplicate, dsl text without) for every item kind of every object kind."""
    out = []
    head = "config { type RegisterAddressType = u8; type CommandAddressType = u8; type DefaultByteOrder = LE; }\n"
    for kind, items in DUP_ITEMS.items():
        for i, (first, second) in enumerate(items):
            base = {"register": ["const ADDRESS = 1;", "const SIZE_BITS = 8;"], "command": ["const ADDRESS = 1;"], "block": []}[kind]
            base = [b for b in base if b.split("=")[0] != first.split("=")[0]]
            body = "\n    ".join(base + [first])
            inner = "\n    register Rz { const ADDRESS = 0; const SIZE_BITS = 8; }" if kind == "block" else ""
            out.append((f"D{kind}{i}", head + f"{kind} Ra {{\n    {body}\n    {second}{inner}\n}}\n",
                        head + f"{kind} Ra {{\n    {body}{inner}\n}}\n"))
    return out


# ---------------------------------------------------------------------------------------------------------------
# stream F: cfg expressions that differ in token SPACING only (observation, see notes/C16.md "findings")
# ---------------------------------------------------------------------------------------------------------------

def cfg_spacing_probe(ctx, exe):
    """The DSL stores a cfg as tokens.to_string(), manifests keep the raw string, and the MIR compares cfgs as strings
    (names_unique's (name, cfg) pairs, Cfg::combine's dedup).  Two objects called Foo whose cfgs are written
    `feature="a"` and `feature = "a"`: one cfg for the DSL (duplicate name: rejected), two for a manifest (accepted)."""
    d = {"config": adef.mk_config(register_address_type="u8"),
         "objects": [adef.mk_register("Foo", 1, 8, [], cfg='feature="a"'),
                     adef.mk_block("Bl", [adef.mk_register("Foo", 2, 8, [], cfg='feature = "a"')], address_offset=10)]}
    texts = render_all(d, None)
    rs = run_texts(ctx, exe, {"f": texts}, want=("mir", "noparse"))["f"]
    st = {s: gen_common.canon_status(rs[s]) for s in SYNTAXES}
    differs = len(set(st.values())) > 1
    return {"texts": texts, "status": st, "front_ends_differ": differs}


# ---------------------------------------------------------------------------------------------------------------
# the check
# ---------------------------------------------------------------------------------------------------------------

def text_tie(ctx, exe, defs, streams, rng):
    """Runs every definition in the four syntaxes. -> (verdicts, results, texts)"""
    texts = {}
    for cid, d in defs.items():
        texts[cid] = render_all(d, rng)
    res = run_texts(ctx, exe, texts)
    verdicts = {}
    for cid in defs:
        v, det = compare4(res[cid])
        if streams[cid] == "E" and v.startswith("DIFF"):
            # documented, text level: YAML and TOML value trees hold i64 integers
            rs = res[cid]
            same = lambda a, b: (rs[a].get("status") == rs[b].get("status") and rs[a].get("tokens_hash") == rs[b].get("tokens_hash")
                                 and norm_mir(rs[a].get("mir")) == norm_mir(rs[b].get("mir")))
            fe_err = lambda s: rs[s].get("status") == "error" and (rs[s].get("mir") or "").startswith("ERR:")
            # YAML reaches u64 only through dd-manifest-tree's "0b..." string form; TOML not at all
            if same("dsl", "json") and fe_err("toml") and (fe_err("yaml") or same("dsl", "yaml")):
                v, det = "doc:int_beyond_i64_yaml_toml", None
        verdicts[cid] = (v, det)
    return verdicts, res, texts


def run(ctx):
    info = vlib.coq_gate(ctx)
    exe, err = gen_common.build_gen_runner(ctx)
    if os.environ.get("C16_GEN_RUNNER"):      # mutation sanity tests only: a gen_runner built from a mutated tree
        exe, err = os.environ["C16_GEN_RUNNER"], None
        ctx.log("using gen_runner override", exe)
    if err:
        vlib.violation(ctx, {"broken": err}, no_input=True)
        vlib.write_evidence(ctx, info, {"evaluations": 0, "distinct_nontrivial": 0, "rule": RULE, "samples": []})
        return
    rng = random.Random(ctx.seed)
    quick = ctx.tier == "quick"
    defs, streams, kinds = {}, {}, {}
    k = 0
    for combo in itertools.product(ACCESSES, ACCESSES, ACCESSES, [None, "LE", "BE"], [None, "LSB0", "MSB0"]):
        defs[f"A{k}"] = sweep_device(combo, k)
        streams[f"A{k}"] = "A"
        k += 1
    for i in range(700 if quick else 9000):
        defs[f"B{i}"] = gen_random(rng)
        streams[f"B{i}"] = "B"
    for i in range(400 if quick else 4000):
        kind = MALFORMED_KINDS[i % len(MALFORMED_KINDS)]
        defs[f"C{i}"], kinds[f"C{i}"] = gen_malformed(rng, kind)
        streams[f"C{i}"] = "C"
    for i in range(12 if quick else 60):
        defs[f"E{i}"] = gen_i64_boundary(rng)
        streams[f"E{i}"] = "E"

    verdicts, res, texts = text_tie(ctx, exe, defs, streams, rng)
    hist = collections.Counter()
    feat = collections.Counter()
    combos = collections.Counter()
    distinct = set()
    bad = []
    for cid, d in defs.items():
        v, det = verdicts[cid]
        hist[streams[cid] + ":" + v] += 1
        if cid in kinds:
            hist["malformed_" + kinds[cid]] += 1
        feat.update(features(d).keys())
        combos[config_combo(d)] += 1
        distinct.add(hashlib.sha1(json.dumps(d, sort_keys=True).encode()).hexdigest())
        if v.startswith("DIFF"):
            bad.append(cid)

    # stream D: a duplicated DSL item is rejected by the PARSER; the same text without the duplicate is accepted
    dups = dup_item_texts()
    dres = run_gen_fast(ctx, exe, [{"id": i + s, "syntax": "dsl", "text": t, "name": "Dev", "want": ["mir", "noparse"]}
                                   for i, td, tn in dups for s, t in (("+", td), ("-", tn))], tag="c16dup")
    dup_bad = []
    for i, td, tn in dups:
        a, b = dres[i + "+"], dres[i + "-"]
        ok = a.get("status") == "error" and a.get("message") == "duplicate item found" and b.get("status") == "ok"
        hist["D:" + ("duplicate-rejected-by-parser" if ok else "UNEXPECTED")] += 1
        if not ok:
            dup_bad.append((i, td, a, b))

    probe = cfg_spacing_probe(ctx, exe)
    hist["F:cfg-spacing-" + ("differs" if probe["front_ends_differ"] else "same")] += 1
    if probe["front_ends_differ"]:
        known = [f for f in vlib.load_known_findings("C16") if "cfg" in (f.get("class") or "")]
        if known:
            vlib.known_finding(ctx, known[0], "cfg expressions differing only in token spacing are one cfg for the DSL and two "
                                              "for a manifest: " + json.dumps(probe["status"]))
        else:
            # D19 is recorded as repaired (Cfg::new normalises the spelling): its return is a violation
            vlib.violation(ctx, {"what": "cfg expressions that differ only in token spacing are one cfg for some front ends and two for others",
                                 "failing_input": {"texts": probe["texts"]}, "implementation": probe["status"]})

    model = model_tie(ctx, exe, defs, streams, res, texts, rng, hist) if info["ok"] else {"skipped": "coq build broken", "diffs": []}

    n_eval = sum(len(t) for t in texts.values()) + 2 * len(dups)
    accepted = sum(1 for cid in defs if verdicts[cid][0] == "same-ok")
    acc_ratio = accepted / max(1, len(defs))
    if bad:
        # prefer a definition every front end ACCEPTS (different drivers), then the shortest
        bad.sort(key=lambda c: (0 if all(res[c][s].get("status") == "ok" for s in SYNTAXES) else 1, len(texts[c]["dsl"])))
        cid = bad[0]
        v, det = verdicts[cid]
        small, got = shrink(ctx, exe, defs[cid], ctx.seed)
        if got is not None:
            stexts, srs, sv, sdet = got
        else:   # the difference needs this run's spellings: replay the texts as they were
            stexts, srs, sv, sdet, small = texts[cid], res[cid], v, det, defs[cid]
        vlib.violation(ctx, {
            "what": "one abstract definition, four syntaxes: the real front ends disagree (" + sv + ")",
            "failing_input": {"adef": small, "texts": stexts},
            "implementation": {s: {"status": srs[s].get("status"), "message": srs[s].get("message"),
                                   "tokens_hash": srs[s].get("tokens_hash"), "mir": srs[s].get("mir")} for s in SYNTAXES},
            "model_and_spec": "props/C16.v C16_front_ends_agree: equal MIR (or both rejected in the same class) for every definition",
            "detail": sdet, "stream": streams[cid], "disagreeing_definitions": len(bad),
            "first_ids": bad[:10]})
    elif dup_bad:
        i, td, a, b = dup_bad[0]
        vlib.violation(ctx, {"what": "a DSL object with a duplicated item is no longer rejected by the parser (or the text "
                                     "without the duplicate is rejected): item lists with duplicates now reach the lowering, "
                                     "whose first-match rule (C16_dsl_first_item_wins) manifests cannot express",
                             "failing_input": {"texts": {"dsl": td}}, "implementation": {"with_duplicate": a, "without": b}})
    elif model.get("diffs"):
        m = model["diffs"][0]
        vlib.violation(ctx, {"what": "the Coq model of the front-end lowering (Front.v) disagrees with the real front end",
                             "failing_input": {"adef": defs[m["id"]], "texts": texts[m["id"]]},
                             "implementation": m["real"], "model_and_spec": m["model"], "front_end": m["front"],
                             "disagreements": len(model["diffs"])})
    elif not info["ok"]:
        vlib.violation(ctx, {"broken": info["reason"], "theorem": "props/C16.v"}, no_input=True)
    if not (0.2 <= acc_ratio <= 0.9):
        ctx.log(f"warning: accepted ratio {acc_ratio:.2f} outside the sanity band")
    sid = "B0"
    samples = [{"adef": defs[sid], "texts": texts[sid], "verdict": verdicts[sid][0],
                "tokens_hash": {s: res[sid][s].get("tokens_hash") for s in SYNTAXES}}]
    for cid in defs:
        if verdicts[cid][0] == "doc:nonbool_single":
            samples.append({"texts": texts[cid], "verdict": verdicts[cid][0],
                            "messages": {s: res[cid][s].get("message") for s in SYNTAXES}})
            break
    for cid in defs:
        if verdicts[cid][0] == "same-reject-frontend":
            samples.append({"texts": {s: texts[cid][s] for s in ("dsl", "json")}, "verdict": verdicts[cid][0],
                            "class": verdicts[cid][1], "messages": {s: res[cid][s].get("message") for s in SYNTAXES}})
            break
    vlib.write_evidence(ctx, info, {
        "evaluations": n_eval, "distinct_nontrivial": len(distinct), "rule": RULE, "samples": samples,
        "definitions": len(defs), "input_distribution": dict(hist), "feature_histogram": dict(feat),
        "global_config_combinations": len(combos), "accepted_ratio": round(acc_ratio, 3),
        "disagreements_text": len(bad), "cfg_spacing_probe": {"status": probe["status"], "front_ends_differ": probe["front_ends_differ"]}, "model_tie": {k: v for k, v in model.items() if k != "diffs"},
        "disagreements_model": len(model.get("diffs", [])),
        "documented_front_end_specific_classes": [
            "dsl_nonbool_single: a non-bool field with a single address is rejected by the DSL lowering; manifests deliver "
            "start..start, rejected later by bit_ranges_validated (field_empty) or an earlier pass",
            "int_beyond_i64_yaml_toml: integers in [2^63,2^64) exist in the DSL and JSON only (YAML/TOML trees hold i64)",
            "dsl_duplicate_item: a repeated item in a DSL object is a parser error; manifests cannot repeat a key"]})


def replay(ctx, path):
    d = json.load(open(path))
    fi = d.get("failing_input")
    if not fi or "texts" not in fi:
        run(ctx)
        return
    exe, err = gen_common.build_gen_runner(ctx)
    texts = fi["texts"]
    rs = run_texts(ctx, exe, {"r": texts})["r"]
    if all(s in rs for s in SYNTAXES):
        v, det = compare4(rs)
        ctx.log("verdict:", v, det)
        if v.startswith("DIFF"):
            vlib.violation(ctx, {"failing_input": fi, "implementation": {s: {k: rs[s].get(k) for k in ("status", "message", "tokens_hash")}
                                                                        for s in SYNTAXES}, "detail": det})
    else:
        for s, r in rs.items():
            ctx.log(s, r.get("status"), r.get("message"))
            if s == "dsl" and not (r.get("status") == "error" and r.get("message") == "duplicate item found"):
                vlib.violation(ctx, {"failing_input": fi, "implementation": r})


# ---------------------------------------------------------------------------------------------------------------
# model tie: python adef -> Coq `Front.adef` term; real MIR -> the canonical string of coq/theories/MirShow.v
# ---------------------------------------------------------------------------------------------------------------

def cq_str(x):
    return '"' + x.replace('"', '""') + '"'


def cq_opt(v, f):
    return "None" if v is None else "(Some %s)" % f(v)


def cq_z(n):
    return "(%d)" % n


def cq_bool(b):
    return "true" if b else "false"


def cq_list(xs, f):
    return "[" + "; ".join(f(x) for x in xs) + "]"


def cq_cfg(c):
    return cq_opt(None if c is None else re.sub(r"\s+", "", c), cq_str)


CQ_ACCESS = {"RW": "RW", "RO": "RO", "WO": "WO"}
CQ_BYO = {"LE": "BoLE", "BE": "BoBE"}
CQ_BIO = {"LSB0": "BiLSB0", "MSB0": "BiMSB0"}
CQ_INT = {"u8": "IU8", "u16": "IU16", "u32": "IU32", "i8": "II8", "i16": "II16", "i32": "II32", "i64": "II64"}
CQ_BASE = {"bool": "BBool", "uint": "BUint", "int": "BInt"}


def cq_repeat(r):
    return "{| r_count := %s; r_stride := %s |}" % (cq_z(r["count"]), cq_z(r["stride"]))


def cq_reset(v):
    return "(RArr %s)" % cq_list(v, cq_z) if isinstance(v, list) else "(RInt %s)" % cq_z(v)


def cq_order(rng, n):
    return cq_list([rng.randrange(0, 4) for _ in range(rng.choice([0, n, n + 1]))], lambda k: "%d%%nat" % k)


def cq_variant(v, rng):
    val = v["value"]
    ev = "EVUnspec" if val is None else "EVDefault" if val == "default" else "EVCatchAll" if val == "catch_all" else "(EVSpec %s)" % cq_z(val)
    return "{| av_cfg := %s; av_name := %s; av_value := %s; av_map_form := %s; av_omit_value := %s |}" % (
        cq_cfg(v.get("cfg")), cq_str(v["name"]), ev, cq_bool(rng.random() < 0.4), cq_bool(rng.random() < 0.5))


def cq_conv(c, rng):
    if c["type"] == "direct":
        return "(ACDirect %s, %s)" % (cq_str(c["name"]), cq_bool(c["try"]))
    return "(ACEnum %s %s, %s)" % (cq_str(c["name"]), cq_list(c["variants"], lambda v: cq_variant(v, rng)), cq_bool(c["try"]))


def cq_field(f, rng):
    return ("{| af_cfg := %s; af_name := %s; af_access := %s; af_base := %s; af_conv := %s; af_start := %s; af_end := %s; "
            "af_incl := %s |}" % (cq_cfg(f.get("cfg")), cq_str(f["name"]), cq_opt(f["access"], CQ_ACCESS.get),
                                  CQ_BASE[f["base"]], cq_opt(f["conv"], lambda c: cq_conv(c, rng)), cq_z(f["start"]),
                                  cq_opt(f["end"], cq_z), cq_bool(rng.random() < 0.4)))


def cq_head(o, name=None):
    return "{| h_cfg := %s; h_doc := %s; h_name := %s |}" % (cq_cfg(o.get("cfg")), cq_bool(o.get("doc") is not None),
                                                            cq_str(name if name is not None else o["name"]))


def cq_object(o, rng):
    k = o["kind"]
    if k == "block":
        return "(ABlock %s %s %s %s %s)" % (cq_head(o), cq_opt(o.get("address_offset"), cq_z), cq_opt(o.get("repeat"), cq_repeat),
                                            cq_order(rng, 2), cq_list(o.get("objects") or [], lambda c: cq_object(c, rng)))
    if k == "register":
        return ("(ARegister %s {| ar_access := %s; ar_byte_order := %s; ar_bit_order := %s; ar_address := %s; "
                "ar_size_bits := %s; ar_reset := %s; ar_repeat := %s; ar_allow_bit_overlap := %s; "
                "ar_allow_address_overlap := %s; ar_fields := %s; ar_order := %s |})" % (
                    cq_head(o), cq_opt(o.get("access"), CQ_ACCESS.get), cq_opt(o.get("byte_order"), CQ_BYO.get),
                    cq_opt(o.get("bit_order"), CQ_BIO.get), cq_opt(o.get("address"), cq_z), cq_opt(o.get("size_bits"), cq_z),
                    cq_opt(o.get("reset_value"), cq_reset), cq_opt(o.get("repeat"), cq_repeat),
                    cq_opt(o.get("allow_bit_overlap"), cq_bool), cq_opt(o.get("allow_address_overlap"), cq_bool),
                    cq_list(o.get("fields") or [], lambda f: cq_field(f, rng)), cq_order(rng, 9)))
    if k == "command":
        fl = lambda fs: cq_list(fs, lambda f: cq_field(f, rng))
        return ("(ACommand %s {| ak_byte_order := %s; ak_bit_order := %s; ak_address := %s; ak_size_in := %s; "
                "ak_size_out := %s; ak_repeat := %s; ak_allow_bit_overlap := %s; ak_allow_address_overlap := %s; "
                "ak_fields_in := %s; ak_fields_out := %s; ak_order := %s; ak_basic := %s; ak_bare := %s |})" % (
                    cq_head(o), cq_opt(o.get("byte_order"), CQ_BYO.get), cq_opt(o.get("bit_order"), CQ_BIO.get),
                    cq_opt(o.get("address"), cq_z), cq_opt(o.get("size_bits_in"), cq_z), cq_opt(o.get("size_bits_out"), cq_z),
                    cq_opt(o.get("repeat"), cq_repeat), cq_opt(o.get("allow_bit_overlap"), cq_bool),
                    cq_opt(o.get("allow_address_overlap"), cq_bool), cq_opt(o.get("fields_in"), fl),
                    cq_opt(o.get("fields_out"), fl), cq_order(rng, 8), cq_bool(rng.random() < 0.5), cq_bool(rng.random() < 0.5)))
    if k == "buffer":
        return "(ABuffer %s {| ab_access := %s; ab_address := %s |})" % (
            cq_head(o), cq_opt(o.get("access"), CQ_ACCESS.get), cq_opt(o.get("address"), cq_z))
    if k == "ref":
        return "(ARef %s %s)" % (cq_head(o), cq_object(full_override(o), rng))
    raise ValueError(k)


def cq_adef(d, rng):
    c = d["config"]
    nwb = c.get("name_word_boundaries")
    nw = "None" if nwb is None else "(Some (NwbString %s))" % cq_str(nwb) if isinstance(nwb, str) else \
        "(Some (NwbArray %s))" % cq_list(nwb, cq_str)
    cfg = ("{| ac_default_register_access := %s; ac_default_field_access := %s; ac_default_buffer_access := %s; "
           "ac_default_byte_order := %s; ac_default_bit_order := %s; ac_register_address_type := %s; "
           "ac_command_address_type := %s; ac_buffer_address_type := %s; ac_name_word_boundaries := %s; "
           "ac_defmt_feature := %s |}" % (
               cq_opt(c.get("default_register_access"), CQ_ACCESS.get), cq_opt(c.get("default_field_access"), CQ_ACCESS.get),
               cq_opt(c.get("default_buffer_access"), CQ_ACCESS.get), cq_opt(c.get("default_byte_order"), CQ_BYO.get),
               cq_opt(c.get("default_bit_order"), CQ_BIO.get), cq_opt(c.get("register_address_type"), CQ_INT.get),
               cq_opt(c.get("command_address_type"), CQ_INT.get), cq_opt(c.get("buffer_address_type"), CQ_INT.get),
               nw, cq_opt(c.get("defmt_feature"), cq_str)))
    return "{| a_config := %s; a_objects := %s |}" % (cfg, cq_list(d["objects"], lambda o: cq_object(o, rng)))


# ---- the real MIR (rustdebug.parse) in the format of MirShow.v ----

def is_none(v):
    return isinstance(v, rustdebug.Ident) and v == "None"


def sh_opt(v, f):
    return "-" if is_none(v) else f(v["#"][0])


def sh_cfg(v):
    x = v["value"]
    return "-" if is_none(x) else "cfg<" + re.sub(r"\s+", "", x["#"][0]) + ">"


def sh_repeat(r):
    return "rep<%dx%d>" % (r["count"], r["stride"])


def sh_reset(v):
    return "int<%d>" % v["#"][0] if v["_"] == "Integer" else "arr<" + ",".join(str(b) for b in v["#"][0]) + ">"


def sh_enum_value(v):
    if isinstance(v, rustdebug.Ident):
        return {"Unspecified": "_", "Default": "default", "CatchAll": "catch_all"}[str(v)]
    return str(v["#"][0])


def sh_conv(v):
    if v["_"] == "Direct":
        return "direct<%s;%s>" % (v["type_name"], str(v["use_try"]))
    e = v["enum_value"]
    style = sh_opt(e["generation_style"], lambda s: "fallible" if isinstance(s, rustdebug.Ident) else "infallible<%d>" % s["bit_size"])
    return "enum<%s%s;%s;%s;%s>" % (sh_cfg(e["cfg_attr"]), e["name"], str(v["use_try"]), style,
                                   ",".join(sh_cfg(x["cfg_attr"]) + x["name"] + "=" + sh_enum_value(x["value"]) for x in e["variants"]))


def sh_field(v):
    r = v["field_address"]
    return "field(" + ";".join([sh_cfg(v["cfg_attr"]), v["name"], str(v["access"]),
                                {"Bool": "bool", "Uint": "uint", "Int": "int"}[str(v["base_type"])],
                                sh_opt(v["field_conversion"], sh_conv), "%d..%d" % (r[1], r[2])]) + ")"


def sh_fields(fs):
    return "[" + ",".join(sh_field(f) for f in fs) + "]"


def sh_object(v):
    k, o = v["_"], v["#"][0]
    if k == "Block":
        return "block(" + ";".join([sh_cfg(o["cfg_attr"]), o["name"], str(o["address_offset"]), sh_opt(o["repeat"], sh_repeat),
                                    "[" + ",".join(sh_object(c) for c in o["objects"]) + "]"]) + ")"
    if k == "Register":
        return "register(" + ";".join([sh_cfg(o["cfg_attr"]), o["name"], str(o["access"]), sh_opt(o["byte_order"], str),
                                       str(o["bit_order"]), str(o["allow_bit_overlap"]), str(o["allow_address_overlap"]),
                                       str(o["address"]), str(o["size_bits"]), sh_opt(o["reset_value"], sh_reset),
                                       sh_opt(o["repeat"], sh_repeat), sh_fields(o["fields"])]) + ")"
    if k == "Command":
        return "command(" + ";".join([sh_cfg(o["cfg_attr"]), o["name"], str(o["address"]), sh_opt(o["byte_order"], str),
                                      str(o["bit_order"]), str(o["allow_bit_overlap"]), str(o["allow_address_overlap"]),
                                      str(o["size_bits_in"]), str(o["size_bits_out"]), sh_opt(o["repeat"], sh_repeat),
                                      sh_fields(o["in_fields"]), sh_fields(o["out_fields"])]) + ")"
    if k == "Buffer":
        return "buffer(" + ";".join([sh_cfg(o["cfg_attr"]), o["name"], str(o["access"]), str(o["address"])]) + ")"
    ov = o["object_override"]
    ok, oo = ov["_"], ov["#"][0]
    if ok == "Block":
        s = "ovblock(" + ";".join([oo["name"], sh_opt(oo["address_offset"], str), sh_opt(oo["repeat"], sh_repeat)]) + ")"
    elif ok == "Register":
        s = "ovregister(" + ";".join([oo["name"], sh_opt(oo["access"], str), sh_opt(oo["address"], str),
                                      str(oo["allow_address_overlap"]), sh_opt(oo["reset_value"], sh_reset),
                                      sh_opt(oo["repeat"], sh_repeat)]) + ")"
    else:
        s = "ovcommand(" + ";".join([oo["name"], sh_opt(oo["address"], str), str(oo["allow_address_overlap"]),
                                     sh_opt(oo["repeat"], sh_repeat)]) + ")"
    return "ref(" + ";".join([sh_cfg(o["cfg_attr"]), o["name"], s]) + ")"


def show_device(mir_text):
    v = rustdebug.parse(mir_text)
    g = v["global_config"]
    low = lambda x: str(x).lower()
    cfg = "config(" + ";".join([str(g["default_register_access"]), str(g["default_field_access"]),
                                str(g["default_buffer_access"]), sh_opt(g["default_byte_order"], str),
                                str(g["default_bit_order"]), sh_opt(g["register_address_type"], low),
                                sh_opt(g["command_address_type"], low), sh_opt(g["buffer_address_type"], low),
                                "[" + ",".join(str(b) for b in g["name_word_boundaries"]) + "]",
                                sh_opt(g["defmt_feature"], lambda s: "<" + s + ">")]) + ")"
    return cfg + "[" + ",".join(sh_object(o) for o in v["objects"]) + "]"


OVR_DSL = [(re.compile(r"^No `(\w+)` is allowed on (\w+) overrides"), lambda m: [m.group(1), m.group(2)]),
           (re.compile(r"^No attributes \(cfg or doc\) are allowed on (\w+) overrides"), lambda m: ["attributes", m.group(1)]),
           (re.compile(r"^No fields are allowed on (\w+) overrides"), lambda m: ["fields", m.group(1)]),
           (re.compile(r"^No objects may be defined on (\w+) overrides"), lambda m: ["objects", m.group(1)]),
           (re.compile(r"^No `in` field list is allowed on (\w+) overrides"), lambda m: ["in", m.group(1)]),
           (re.compile(r"^No `out` field list is allowed on (\w+) overrides"), lambda m: ["out", m.group(1)]),
           (re.compile(r"^No basic address specifier is allowed on (\w+) overrides"), lambda m: ["basic", m.group(1)])]


def norm_model_string(x):
    """`command X` (no value) and `command X { }` (no address) are two DSL spellings of one abstract command; the model
    and the text may have picked different ones: the two messages are identified."""
    return re.sub(r"^(error:dsl_missing:Command\|\w+)\|value$", r"\1|address", x)


def real_as_model(r):
    """The real outcome of ONE front end in the format of MirShow.show_result_device (errors: the model's kinds)."""
    m = r.get("mir") or ""
    if r.get("status") in ("panic", "abort") or m.startswith("PANIC"):
        return "panic"
    if not m.startswith("ERR:"):
        return "ok:" + show_device(m)
    msg = (r.get("message") or "").strip()
    for rx, f in OVR_DSL:
        mm = rx.search(msg)
        if mm:
            return "error:dsl_override_forbidden:" + "|".join(f(mm))
    c = errmap.classify(msg)
    if c.startswith("manifest_unexpected_key:") and "Parsing error for 'override'" in msg:
        c = "manifest_override_unexpected_key:" + c.split(":", 1)[1]
    return "error:" + c


MODEL_PREAMBLE = """From Coq Require Import ZArith List Bool String.
From DD Require Import Common Mir GenErr Front MirShow.
From DD Require Case.
Import ListNotations.
Open Scope string_scope.
Open Scope Z_scope.
Definition LF (s : string) : list string := map Case.boundary_name (Case.list_from (Case.la s)).
Definition run3 (d : adef) : string :=
  show_result_device (lower_dsl (to_dsl LF d)) ++ "@@" ++ show_result_device (lower_manifest LF (to_manifest false d))
  ++ "@@" ++ show_result_device (lower_manifest LF (to_manifest true d)) ++ "@@" ++
  (let s := show_result_device (class_of (spec_device LF d)) in
   let eqs (r : result device) := if String.eqb (show_result_device (class_of r)) s then "T" else "F" in
   (if adef_ok d then "wf" else "nwf") ++ eqs (lower_dsl (to_dsl LF d)) ++ eqs (lower_manifest LF (to_manifest false d))
   ++ eqs (lower_manifest LF (to_manifest true d))).
"""


def model_tie(ctx, exe, defs, streams, res, texts, rng, hist):
    """Coq: lower_dsl (to_dsl d), lower_manifest (to_manifest d) for the JSON/YAML and the TOML rendering, and the spec;
    compared with the REAL MIR of the DSL, JSON and TOML front ends."""
    ids = [cid for cid in defs if streams[cid] != "E"]
    if ctx.tier == "quick":
        keep = [c for c in ids if streams[c] != "A"] + [c for c in ids if streams[c] == "A"][::4]
        ids = keep
    terms = [(cid, "run3 (%s)" % cq_adef(defs[cid], rng)) for cid in ids]
    term_of = dict(terms)
    out = vlib.coq_eval_strings(ctx, MODEL_PREAMBLE, terms, shard_size=25, tag="c16model")

    def compare(cids, out):
        diffs, n, errs = [], 0, 0
        for cid in cids:
            o = out.get(cid, "")
            if o.startswith("<<COQ-ERROR") or o.count("@@") != 3:
                errs += 1
                diffs.append({"id": cid, "front": "coq", "real": None, "model": o})
                continue
            parts = o.split("@@")
            if parts[3].startswith("wf") and parts[3] != "wfTTT":
                # the statement of C16_front_ends_agree evaluated on this definition is false
                diffs.append({"id": cid, "front": "theorem", "real": None,
                              "model": "adef_ok but lowerings/spec disagree: " + o[:3000]})
            for front, mpart in (("dsl", parts[0]), ("json", parts[1]), ("toml", parts[2])):
                try:
                    real = real_as_model(res[cid][front])
                except Exception as ex:
                    real = "unparsable:" + repr(ex)
                n += 1
                if norm_model_string(real) != norm_model_string(mpart):
                    diffs.append({"id": cid, "front": front, "real": real, "model": mpart})
        return diffs, n, errs

    diffs, n, errs = compare(ids, out)
    retried = 0
    if diffs:
        # other agents rebuild shared .vo files concurrently: a disagreement must survive a second evaluation
        again = sorted({d["id"] for d in diffs})
        retried = len(again)
        out2 = vlib.coq_eval_strings(ctx, MODEL_PREAMBLE, [(c, term_of[c]) for c in again], shard_size=10, tag="c16retry")
        diffs, _, errs = compare(again, out2)
        out.update(out2)
    for cid in ids:
        o = out.get(cid, "")
        if o.count("@@") == 3:
            hist["model_" + o.split("@@")[3]] += 1
    for d in diffs:
        hist["model_diff_" + d["front"]] += 1
    first = [{"id": d["id"], "front": d["front"], "real": (d["real"] or "")[:600], "model": (d["model"] or "")[:600]} for d in diffs[:3]]
    return {"definitions": len(ids), "comparisons": n, "coq_errors": errs, "retried": retried, "diffs": diffs, "first_diffs": first}
