"""Correspondence between the protocol layers of the runtime (register.rs, command.rs, buffer.rs; real
code, driven by harness/proto_runner against scripted interfaces) and the extracted Coq model
Proto.v/ProtoCases.v (ocaml/proto_driver.ml).  Shared by C05 (registers), C09 (commands), C10 (buffers).

Case format: see the header of harness/proto_runner/src/main.rs."""
import collections, fcntl, itertools, json, os, random, re
import vlib

SIZES = [1, 7, 8, 9, 12, 16, 24, 64, 128]
PENDS = [0, 1, 2]


def nbytes(sz):
    return (sz + 7) // 8


def hx(b):
    return bytes(b).hex() if b else "-"


# ------------------------------------------------------------------ build

def build(ctx):
    """Returns (model_exe, impl_exe, error)."""
    ok, log = vlib.coq_build(["theories/ProtoCases.vo"])
    if not ok:
        return None, None, "model does not compile: " + log[-800:]
    os.makedirs(os.path.join(vlib.CACHE, "proto"), exist_ok=True)
    with open(os.path.join(vlib.CACHE, "proto", "build.lock"), "w") as lk:
        fcntl.flock(lk, fcntl.LOCK_EX)       # C05/C09/C10 share one extraction directory
        exe, log = vlib.ocaml_build("proto", "ExtractProto.v", "proto_driver.ml")
    if exe is None:
        return None, None, "extraction/ocaml build failed: " + log[-800:]
    ok, log = vlib.cargo_build(["proto_runner"])
    if not ok:
        return None, None, "cargo build of proto_runner against /repo failed: " + log[-2000:]
    return exe, vlib.bin_path("proto_runner"), None


def model_line(l):
    """The protocol (and its model) is per CALL: a register line marked S / A (one operation object reused for the whole
    sequence) has the same expected outcome as the line with a fresh object per call."""
    if l.startswith("R S ") or l.startswith("R A "):
        return "R " + l[2].lower() + l[3:]
    return l


def run_cases(ctx, model_exe, impl_exe, lines):
    impl = vlib.run_sharded(lambda p: [impl_exe, p], lines, nshards=4, workdir=ctx.work, tag="impl")
    model = vlib.run_sharded(lambda p: [model_exe, p], [model_line(l) for l in lines], nshards=vlib.NCPU, workdir=ctx.work, tag="model")
    return impl, model


# ------------------------------------------------------------------ script helpers

def entry(res, data, pend):
    """res: ('k', n) | ('e', code)"""
    return f"{res[0]}{res[1]}:{hx(data)}:{pend}"


def script(entries):
    return ",".join(entries) if entries else "-"


def rnd_bytes(rng, n):
    return [rng.randrange(256) for _ in range(n)]


def rnd_store(rng, n):
    """what an interface stores through a mutable slice of n bytes: usually exactly n bytes, sometimes
    fewer / more / nothing (the slice cannot grow or shrink: C05_read, `overlay`)"""
    k = rng.choice([n, n, n, n, max(0, n - 1), n + 1, 0])
    return rnd_bytes(rng, k)


# ------------------------------------------------------------------ C05 cases

REG_OPS = "wzrm"
NCALLS = {"w": 1, "z": 1, "r": 1, "m": 2}


def reg_cases(rng, maxlen, full_size_product_upto):
    """All sequences over {write, write_with_zero, read, modify} up to `maxlen` x every subset of
    failing call positions x (async only) every Pending count in {0,1,2} per call position.  Sequences
    up to length `full_size_product_upto` are run for every size, longer ones for one size each
    (rotating).  Reset value, closure pattern, stored bytes and error codes are random."""
    lines = []
    rot = 0
    for L in range(1, maxlen + 1):
        for seq in itertools.product(REG_OPS, repeat=L):
            nc = sum(NCALLS[o] for o in seq)
            for errs in itertools.product([False, True], repeat=nc):
                for ent in "sa":
                    pend_sets = itertools.product(PENDS, repeat=nc) if ent == "a" else [tuple([0] * nc)]
                    for pends in pend_sets:
                        if L <= full_size_product_upto:
                            sizes = SIZES
                        else:
                            sizes = [SIZES[rot % len(SIZES)]]
                            rot += 1
                        for sz in sizes:
                            lines.append(reg_line(rng, ent, sz, seq, errs, pends))
                            if L >= 2 and (L <= full_size_product_upto or rot % 2 == 0):
                                # the same history through ONE reused operation object (seed C05-6 cached the reset
                                # value in the object and let closures edit it in place)
                                l2 = lines[-1]
                                lines.append("R " + l2[2].upper() + l2[3:])
    return lines


def reg_line(rng, ent, sz, seq, errs, pends):
    n = nbytes(sz)
    addr = rng.choice([0, 1, 5, 0x7F, 0xFFFF, 0xFFFFFFFF])
    reset = rnd_bytes(rng, n)
    ops = []
    for o in seq:
        kind = rng.choice("xs")
        pat = rnd_bytes(rng, rng.choice([n, n, max(0, n - 1), n + 1]))
        ops.append(f"{o}.{kind}.{hx(pat)}")
    ents = []
    for e, p in zip(errs, pends):
        res = ("e", rng.randrange(1, 256)) if e else ("k", 0)
        ents.append(entry(res, rnd_store(rng, n), p))
    return f"R {ent} {sz} {addr} {hx(reset)} {','.join(ops)} {script(ents)}"


# ------------------------------------------------------------------ C09 cases

def cmd_cases(rng, reps):
    lines = []
    for _ in range(reps):
        for shape in "niob":
            ins = SIZES if shape in "ib" else [0]
            outs = SIZES if shape in "ob" else [0]
            for si in ins:
                for so in outs:
                    for err in (False, True):
                        for ent, pend in [("s", 0)] + [("a", p) for p in PENDS]:
                            for kind in "xs":
                                for store_len in ("exact", "short", "long"):
                                    if shape in "ni" and store_len != "exact":
                                        continue
                                    if shape in "no" and kind == "s":
                                        continue
                                    ni, no = nbytes(si), nbytes(so)
                                    pat = rnd_bytes(rng, rng.choice([ni, ni, max(0, ni - 1), ni + 1]))
                                    k = {"exact": no, "short": max(0, no - 1), "long": no + 1}[store_len]
                                    res = ("e", rng.randrange(1, 256)) if err else ("k", 0)
                                    addr = rng.choice([0, 3, 0x42, 0xFFFFFFFF])
                                    lines.append(f"C {ent} {shape} {addr} {si} {so} {kind}.{hx(pat)} "
                                                 f"{script([entry(res, rnd_bytes(rng, k), pend)])}")
    return lines


# ------------------------------------------------------------------ C10 cases

def outcome_seqs(n):
    """Every sequence of per-call outcomes the interface may produce for a transfer of n bytes, up to the
    call that ends it: ('k', j) with 1 <= j <= remaining continues, ('k', 0), ('e', _) and the
    out-of-contract ('k', remaining + 1) end it.  2^(n+1) sequences for n >= 1, the empty one for n = 0."""
    if n == 0:
        return [[]]
    out = [[("k", 0)], [("e", None)], [("k", n + 1)]]
    for j in range(1, n + 1):
        out += [[("k", j)] + rest for rest in outcome_seqs(n - j)]
    return out


def buf_cases(rng, maxlen, full_pend_calls):
    """write_all / read_exact: request lengths 0..maxlen x every outcome sequence x 4 entry points; async
    entry points with every Pending pattern in {0,1,2}^calls when calls <= full_pend_calls, else 3 random
    patterns.  write / flush / read: every count 0..len+1 and Err x 4 entry points x Pending counts."""
    lines = []
    for n in range(0, maxlen + 1):
        for op in "WR":
            for seq in outcome_seqs(n):
                for ent in "stau":
                    if ent in "st":
                        pend_sets = [tuple([0] * len(seq))]
                    elif len(seq) <= full_pend_calls:
                        pend_sets = list(itertools.product(PENDS, repeat=len(seq)))
                    else:
                        pend_sets = [tuple(rng.choice(PENDS) for _ in seq) for _ in range(3)]
                    for pends in pend_sets:
                        lines.append(buf_line(rng, ent, op, n, seq, pends))
        for op in "wrf":
            if op == "f" and n > 0:
                continue
            outs = [("k", j) for j in range(0, n + 2)] + [("e", None)]
            for o in outs:
                for ent, p in [("s", 0), ("t", 0)] + [(e, p) for e in "au" for p in PENDS]:
                    lines.append(buf_line(rng, ent, op, n, [o], (p,)))
    return lines


BIG_LENGTHS = (255, 256, 257, 65535, 65536, 65537, 70000)


def buf_big_cases(rng, lengths=BIG_LENGTHS):
    """Requests around the 8- and 16-bit length boundaries (the exhaustive family stops at single-digit lengths): the whole
    slice must reach the interface in ONE call of every entry point whatever its length; write_all / read_exact with the
    interface taking everything at once, everything but one byte, a 16-bit counter's worth, or a random short count."""
    lines = []
    for n in lengths:
        splits = [[n], [n - 1, 1], [1, n - 1], [min(n, 65535)] + ([n - 65535] if n > 65535 else []), [n // 2, n - n // 2]]
        j = rng.randrange(1, n)
        splits.append([j, n - j])
        for op in "WR":
            for sp in splits:
                seq = [("k", v) for v in sp if v > 0]
                for ent in "stau":
                    pends = tuple(0 if ent in "st" else rng.choice(PENDS) for _ in seq)
                    lines.append(buf_line(rng, ent, op, n, seq, pends))
            # ... and ending early: error / zero after a first short call
            for last in (("e", None), ("k", 0)):
                seq = [("k", j), last]
                for ent in "stau":
                    pends = tuple(0 if ent in "st" else rng.choice(PENDS) for _ in seq)
                    lines.append(buf_line(rng, ent, op, n, seq, pends))
        for op in "wr":
            for o in (("k", n), ("k", n - 1), ("k", min(n, 65535)), ("k", n + 1), ("k", 0), ("e", None)):
                for ent, p in [("s", 0), ("t", 0), ("a", rng.choice(PENDS)), ("u", rng.choice(PENDS))]:
                    lines.append(buf_line(rng, ent, op, n, [o], (p,)))
    return lines


def buf_seq_cases(rng, count):
    """Sequences of single-call operations (write, read, flush) on ONE BufferOperation object: every call is a straight
    pass-through whatever was called before it on the same object (seed C10-9: a flush that is skipped when nothing was
    written since the last successful flush).  -> [(Q line for the runner, [the B line of each call alone for the model])]"""
    out = []
    shapes = [["f", "f"], ["f", "f", "f"], ["w", "f", "f"], ["f", "w", "f"], ["w", "w"], ["r", "r"], ["f", "r", "f"], ["w", "f", "w", "f"],
              ["f", "f", "w", "f", "f"], ["r", "f", "f"], ["w", "r", "w"]]
    for k in range(count):
        ops = shapes[k % len(shapes)] if k < 3 * len(shapes) else [rng.choice("wrf") for _ in range(rng.randrange(2, 6))]
        for ent in "stau":
            addr = rng.choice([0, 9, 0x100, 0xFFFFFFFF])
            items, blines, ents = [], [], []
            for op in ops:
                n = 0 if op == "f" else rng.choice([0, 1, 2, 3, 5])
                buf = rnd_bytes(rng, n)
                r = rng.random()
                if r < 0.25:
                    res = ("e", rng.randrange(1, 256))
                elif op == "f":
                    res = ("k", 0)
                else:
                    res = ("k", rng.randrange(0, n + 1))
                data = rnd_store(rng, n) if op == "r" else []
                e = entry(res, data, 0 if ent in "st" else rng.choice(PENDS))
                ents.append(e)
                items.append(f"{op}:{hx(buf)}")
                blines.append(f"B {ent} {op} {addr} {hx(buf)} {script([e])}")
            out.append((f"Q {ent} {addr} {';'.join(items)} {script(ents)}", blines))
    return out


def run_buf_seqs(ctx, seqs):
    """-> (number of sequences, list of (Q line, implementation output, model outputs joined))"""
    model_exe, impl_exe, err = build(ctx)
    if err:
        return 0, [("-", "build", err)]
    qlines = [q for q, _ in seqs]
    flat = [b for _, bl in seqs for b in bl]
    impl = vlib.run_sharded(lambda p: [impl_exe, p], qlines, nshards=4, workdir=ctx.work, tag="implq")
    model = vlib.run_sharded(lambda p: [model_exe, p], [model_line(l) for l in flat], nshards=vlib.NCPU, workdir=ctx.work, tag="modelq")
    if len(impl) != len(qlines) or len(model) != len(flat):
        return 0, [("-", "length", f"impl {len(impl)}/{len(qlines)} model {len(model)}/{len(flat)}")]
    diffs, i = [], 0
    for (q, bl), a in zip(seqs, impl):
        want = " | ".join(model[i:i + len(bl)])
        i += len(bl)
        if a != want:
            diffs.append((q, a, want))
    return len(qlines), diffs


def buf_line(rng, ent, op, n, seq, pends):
    addr = rng.choice([0, 9, 0x100, 0xFFFFFFFF])
    buf = rnd_bytes(rng, n)
    ents = []
    remaining = n
    for (r, v), p in zip(seq, pends):
        res = ("e", rng.randrange(1, 256)) if r == "e" else ("k", v)
        data = rnd_store(rng, remaining) if op in "rR" else []
        if op in "rR" and r == "k" and v and rng.random() < 0.7:
            data = rnd_bytes(rng, rng.choice([v, v, v + 1, remaining]))   # mostly: exactly the bytes it reports
        ents.append(entry(res, data, p))
        if r == "k":
            remaining -= min(v, remaining)
    return f"B {ent} {op} {addr} {hx(buf)} {script(ents)}"


# ------------------------------------------------------------------ comparing, classifying, reporting

POLLS = re.compile(r" p\d+")
HEXRUN = re.compile(r"(?<![a-z0-9])[0-9a-f]{2}(?:[0-9a-f]{2})*(?![a-z0-9])")


def strip_polls(s):
    return POLLS.sub("", s)


def shape_of(line, out):
    """The class of a case for `distinct_nontrivial`: entry point(s), sizes, operation sequence, and the
    model's output with every byte string replaced by its length and poll counts removed."""
    p = line.split(" ")
    o = strip_polls(out)
    o = re.sub(r"(?<=[(,:])([0-9a-f]{2})+(?=[),: ]|$)", lambda m: f"#{len(m.group(0)) // 2}", o)
    o = re.sub(r"\((\d+),", "(A,", o)                      # address
    o = re.sub(r"err:\d+", "err:E", o)
    o = re.sub(r"rxother:\d+", "rxother:E", o)
    if p[0] == "R":
        head = (p[0], p[1], p[2], ",".join(x.split(".")[0] for x in p[5].split(",")))
    elif p[0] == "C":
        head = (p[0], p[1], p[2], p[4], p[5])
    else:
        head = (p[0], p[1], p[2], str(0 if p[4] == "-" else len(p[4]) // 2))
    return head + (o,)


def describe(line):
    p = line.split(" ")
    d = {"case_line": line}
    sc = p[-1]
    d["script"] = [] if sc == "-" else [
        {"call_position": i, "answer": ("Ok(%s)" % e.split(":")[0][1:]) if e[0] == "k" else ("Err(%s)" % e.split(":")[0][1:]),
         "bytes_stored_through_mut_slice": e.split(":")[1], "pending_before_ready": int(e.split(":")[2])}
        for i, e in enumerate(sc.split(","))]
    if p[0] == "R":
        d.update({"layer": "register", "entry": ("blocking" if p[1] in "sS" else "*_async") + (" (one reused operation object)" if p[1] in "SA" else ""), "size_bits": int(p[2]),
                  "address": int(p[3]), "reset_value_hex": p[4],
                  "operations": [dict({"op": {"w": "write", "z": "write_with_zero", "r": "read", "m": "modify"}[o.split(".")[0]]},
                                      **({} if o[0] == "r" else {"closure": ("xor " if o.split(".")[1] == "x" else "overwrite with ") + o.split(".")[2]}))
                                 for o in p[5].split(",")]})
    elif p[0] == "C":
        d.update({"layer": "command", "entry": "dispatch" if p[1] == "s" else "dispatch_async",
                  "shape": {"n": "no in/no out", "i": "in only", "o": "out only", "b": "in+out"}[p[2]],
                  "address": int(p[3]), "size_bits_in": int(p[4]), "size_bits_out": int(p[5]),
                  "closure": ("xor " if p[6][0] == "x" else "overwrite with ") + p[6][2:]})
    else:
        d.update({"layer": "buffer",
                  "entry": {"s": "inherent blocking", "a": "inherent *_async", "t": "embedded_io trait", "u": "embedded_io_async trait"}[p[1]],
                  "op": {"w": "write", "W": "write_all", "f": "flush", "r": "read", "R": "read_exact"}[p[2]],
                  "address": int(p[3]), "caller_slice_hex": p[4]})
    return d


def cost(line):
    p = line.split(" ")
    sc = [] if p[-1] == "-" else p[-1].split(",")
    nops = len(p[5].split(",")) if p[0] == "R" else 1
    pend = sum(int(e.split(":")[2]) for e in sc)
    return (nops, len(sc), 0 if p[1] in "st" else 1, pend, len(line))


def histogram(lines):
    h = collections.Counter()
    for l in lines:
        p = l.split(" ")
        sc = [] if p[-1] == "-" else p[-1].split(",")
        h["entry:" + p[1]] += 1
        h["script_calls:%d" % len(sc)] += 1
        h["errors_scripted:%d" % sum(1 for e in sc if e[0] == "e")] += 1
        h["pendings_total:%d" % min(6, sum(int(e.split(":")[2]) for e in sc))] += 1
        if p[0] == "R":
            h["size:" + p[2]] += 1
            h["ops:%d" % len(p[5].split(","))] += 1
        elif p[0] == "C":
            h["shape:" + p[2]] += 1
        else:
            h["op:" + p[2]] += 1
            h["len:%d" % (0 if p[4] == "-" else len(p[4]) // 2)] += 1
    return dict(sorted(h.items()))


def correspondence(ctx, lines, corpus_prefix):
    """Runs implementation and model on `lines` (corpus first).  Returns (stats, diffs, error); diffs =
    list of (line, impl, model, polls_only)."""
    model_exe, impl_exe, err = build(ctx)
    if err:
        return None, None, err
    corpus = os.path.join(vlib.VERIF, "corpus", "proto.txt")
    if os.path.exists(corpus):
        pre = [l for l in open(corpus).read().splitlines() if l and l[0] == corpus_prefix]
        lines = pre + lines
    impl, model = run_cases(ctx, model_exe, impl_exe, lines)
    if len(impl) != len(lines) or len(model) != len(lines):
        return None, None, f"runner output length mismatch: cases={len(lines)} impl={len(impl)} model={len(model)}"
    diffs = []
    classes = set()
    outcomes = collections.Counter()
    for l, a, b in zip(lines, impl, model):
        classes.add(shape_of(l, b))
        for k in ("PANIC:writezero", "PANIC:slice", "rxeof", "rxother", "rxok", "err:", "ok"):
            if k in b:
                outcomes["outcome:" + k.rstrip(":")] += 1
        if a != b:
            diffs.append((l, a, b, strip_polls(a) == strip_polls(b)))
    bad_model = [b for b in model if "PANIC:fuel" in b or b.startswith("DRIVER-ERROR")]
    if bad_model:
        return None, None, "model produced an artefact outcome: " + bad_model[0]
    hist = histogram(lines)
    hist.update(dict(sorted(outcomes.items())))
    idx = sorted(set([0, len(lines) // 5, len(lines) // 3, len(lines) // 2, (2 * len(lines)) // 3, len(lines) - 1]))
    stats = {"evaluations": len(lines), "distinct_nontrivial": len(classes), "histogram": hist,
             "samples": [dict(describe(lines[i]), impl=impl[i], model=model[i]) for i in idx]}
    return stats, diffs, None


def report(ctx, info, stats, diffs, err, prop, theorems, rule, what, extra_assumptions=None, extra_coverage=None):
    """Common tail of the three checks."""
    assumptions = [
        "FieldSet contract assumed by the model: get_inner_buffer(_mut) is a [u8; ceil(SIZE_BITS/8)] (C06 proves it of generated code; the harness field sets satisfy it)",
        "user closures are total functions on the register bytes (a closure that panics or diverges is outside the model)",
        "the compiler's async lowering is not verified: an await is modelled as 'the awaited interface future answers Pending any finite number of times'; the correspondence runs the real futures on a hand-rolled executor for Pending counts 0..2 per await",
        "interface answers depend on the call history, not on how often a future is polled",
    ] + (extra_assumptions or [])
    if err:
        vlib.violation(ctx, {"broken": "correspondence harness could not run", "detail": err, "theorem": theorems}, no_input=True)
        vlib.write_evidence(ctx, info, {"evaluations": 0, "distinct_nontrivial": 0, "rule": rule, "samples": []},
                            assumptions=assumptions)
        return
    real = [d for d in diffs if not d[3]]
    polls_only = [d for d in diffs if d[3]]
    if real:
        # prefer a failing input inside the interface contract (the model does not answer PANIC:slice)
        l, a, b, _ = sorted(real, key=lambda d: ("PANIC:slice" in d[2],) + cost(d[0]))[0]
        vlib.violation(ctx, {"what": what, "failing_input": describe(l), "implementation": a, "model_and_spec": b,
                             "reading": "events before '=>' are the interface calls in order (rw/rr = write/read_register(addr,size_bits,bytes), "
                                        "cd = dispatch_command(addr,size_in,input,size_out,output), bw/bf/br = buffer write/flush/read), after it the "
                                        "value returned, pN = number of polls; segments separated by ' | ' are the operations of the sequence",
                             "disagreements": len(real), "theorems": theorems,
                             "replay_cmd": f"./check {prop} --replay <this file>"})
    elif polls_only:
        l, a, b, _ = sorted(polls_only, key=lambda d: cost(d[0]))[0]
        vlib.violation(ctx, {"broken": "calls and results agree, but the number of polls differs from the model's "
                                       "'one Pending of the outer future per Pending of the awaited interface future': the async model is no longer tied to the code",
                             "case": describe(l), "implementation": a, "model": b, "theorems": theorems}, no_input=True)
    elif not info["ok"]:
        vlib.violation(ctx, {"broken": info["reason"], "theorem": f"props/{prop}.v",
                             "note": "proof obligation no longer checks; correspondence found no disagreement"}, no_input=True)
    extra = dict(extra_coverage or {})
    if ctx.tier == "thorough" and info["ok"]:
        ok, out = vlib.coqchk(prop)
        extra["coqchk"] = out.strip().splitlines()[-6:]
        if not ok:
            vlib.violation(ctx, {"broken": "coqchk rejected the compiled proofs", "detail": out[-800:]}, no_input=True)
    vlib.write_evidence(ctx, info, {"evaluations": stats["evaluations"], "distinct_nontrivial": stats["distinct_nontrivial"],
                                    "rule": rule, "samples": stats["samples"], "input_distribution": stats["histogram"],
                                    "exhaustive": True, "disagreements": len(diffs), **extra},
                        assumptions=assumptions)


def replay(ctx, path, prop):
    d = json.load(open(path))
    line = (d.get("failing_input") or d.get("case") or {}).get("case_line")
    if not line:
        ctx.log("replay file names a broken obligation, not an input:", d.get("broken"))
        return False
    model_exe, impl_exe, err = build(ctx)
    if err:
        vlib.violation(ctx, {"broken": err}, no_input=True)
        return True
    impl, model = run_cases(ctx, model_exe, impl_exe, [line])
    ctx.log("case :", line)
    ctx.log("impl :", impl[0] if impl else None)
    ctx.log("model:", model[0] if model else None)
    if impl != model:
        vlib.violation(ctx, {"failing_input": describe(line), "implementation": impl[0] if impl else None,
                             "model_and_spec": model[0] if model else None})
    return True
