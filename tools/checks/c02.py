"""C02 — store/load round-trips and disturbs nothing outside the field."""
import json, os, random
import vlib
from checks import ops_common, c02_gen
import gen_ops_cases as G

RULE = ("(a) the C01 exhaustive-geometry correspondence (real ops vs extracted Coq model); (b) a property oracle on the "
        "implementation alone: for every store case of (a), the bits outside [s,e) are compared with the input "
        "(python phys_byte/phys_bit written from the property text) and the stored buffer is loaded back and "
        "compared with v reduced to the field width (two's complement for signed carriers); "
        "(b') the laws C02_store_of_loaded_is_identity (store the value just read: buffer unchanged byte for byte) and "
        "C02_last_store_wins (store v2 after v1 == store v2 on the original buffer) on every round trip of (b); "
        "distinct = (byte order, bit order, carrier, len, s mod 8, e mod 8, bytes spanned) classes of round trips; "
        "(c) generated level: sequences of setter calls on compiled generated field sets (c02_gen.py)")


def phys(be, msb0, ln, k):
    byte = (ln - 1 - k // 8) if be else k // 8
    bit = (7 - k % 8) if msb0 else k % 8
    return byte, bit


def getbit(be, msb0, data, k):
    by, bi = phys(be, msb0, len(data), k)
    return (data[by] >> bi) & 1


def parse_signed(h):
    v = int(h[1:], 16)
    return -v if h[0] == "-" else v


def expected_readback(car, w, v):
    bits = G.CARRIER_BITS[car]
    m = v % (1 << w)
    if G.CARRIER_SIGNED[car] and m >= (1 << (w - 1)):
        return m - (1 << w)
    return m


def run(ctx):
    info = vlib.coq_gate(ctx)
    known = {k["id"]: k for k in vlib.load_known_findings("C02")}
    res, err = ops_common.correspondence(ctx, ctx.tier, keep_cases=True)
    if err:
        vlib.violation(ctx, {"broken": "correspondence harness could not run", "detail": err}, no_input=True)
        vlib.write_evidence(ctx, info, {"evaluations": 0, "distinct_nontrivial": 0, "rule": RULE, "samples": []})
        return
    stats, diffs = res
    lines, impl = stats.pop("lines"), stats.pop("impl")
    nviol = 0
    if diffs:
        l, a, b = ops_common.minimal(diffs)
        vlib.violation(ctx, {"what": "ops.rs disagrees with the proven model (round trip / isolation theorems no longer apply)",
                             "failing_input": ops_common.describe(l), "implementation": a, "model_and_spec": b,
                             "disagreements": len(diffs)})
        nviol += 1
    # ---- property oracle on the implementation alone
    model_exe, impl_exe, err = ops_common.build(ctx)
    second = []
    meta = []
    iso_fail = None
    for l, out in zip(lines, impl):
        p = l.split()
        if p[0] != "S" or out in ("PANIC", "CANARY"):
            continue
        be, msb0, car, s, e = p[1] == "1", p[2] == "1", int(p[3]), int(p[4]), int(p[5])
        before = bytes.fromhex(p[7]) if len(p) > 7 else b""
        after = bytes.fromhex(out)
        if len(after) != len(before):
            iso_fail = iso_fail or (l, out, "length changed")
            continue
        for k in range(8 * len(before)):
            if not (s <= k < e) and getbit(be, msb0, before, k) != getbit(be, msb0, after, k):
                iso_fail = iso_fail or (l, out, f"set-bit {k} outside [{s},{e}) changed")
                break
        second.append(f"L {p[1]} {p[2]} {p[3]} {s} {e} {out}")
        meta.append((l, car, e - s, parse_signed(p[6])))
    if iso_fail:
        vlib.violation(ctx, {"what": "store disturbed a bit outside the field", "failing_input": ops_common.describe(iso_fail[0]),
                             "implementation": iso_fail[1], "detail": iso_fail[2]})
        nviol += 1
    back = vlib.run_sharded(lambda q: [impl_exe, q], second, nshards=4, workdir=ctx.work, tag="rt")
    d1_seen = 0
    rt_fail = None
    classes = set()
    for (l, car, w, v), ld, got in zip(meta, second, back):
        classes.add(ops_common.case_class(l)[1:])
        want = expected_readback(car, w, v)
        if got == "PANIC" or parse_signed(got) != want:
            gotv = None if got == "PANIC" else parse_signed(got)
            is_d1 = ("D1" in known and G.CARRIER_SIGNED[car] and w < G.CARRIER_BITS[car]
                     and gotv == v % (1 << w) and (v >> (w - 1)) & 1 == 1)
            if is_d1:
                d1_seen += 1
            else:
                rt_fail = rt_fail or (l, ld, got, want)
    if rt_fail:
        l, ld, got, want = rt_fail
        vlib.violation(ctx, {"what": "read-after-write does not return the value reduced to the field width",
                             "failing_input": ops_common.describe(l), "load_case": ld, "implementation": got,
                             "expected": ("-" if want < 0 else "+") + format(abs(want), "x")})
        nviol += 1
    if d1_seen:
        vlib.known_finding(ctx, known["D1"], f"signed narrow field read back unsigned in {d1_seen} round trips "
                                            f"(e.g. i8 [0,4): -1 -> 15); theorem C02_signed_narrow_refuted")
    elif "D1" in known:
        # the recorded defect no longer shows: the finding file is stale; say so but do not fail
        ctx.log("note: known finding D1 was not reproduced in this run")
    # ---- algebraic laws on the implementation alone (theorems C02_store_of_loaded_is_identity, C02_last_store_wins)
    def fmt(v):
        return ("-" if v < 0 else "+") + format(abs(v), "x")
    ident, lastw_a, lastw_b, law_meta = [], [], [], []
    for (l, car, w, v), ld, got in zip(meta, second, back):
        if got == "PANIC":
            continue
        p = l.split()
        after = ld.split()[6] if len(ld.split()) > 6 else ""
        before = p[7] if len(p) > 7 else ""
        head = " ".join(p[1:6])
        v2 = (-v - 1) if G.CARRIER_SIGNED[car] else ((1 << G.CARRIER_BITS[car]) - 1 - v)
        ident.append(f"S {head} {got} {after}".rstrip())
        lastw_a.append(f"S {head} {fmt(v2)} {after}".rstrip())
        lastw_b.append(f"S {head} {fmt(v2)} {before}".rstrip())
        law_meta.append((l, after))
    law_out = vlib.run_sharded(lambda q: [impl_exe, q], ident + lastw_a + lastw_b, nshards=4, workdir=ctx.work, tag="law")
    n = len(ident)
    law_fail = None
    if len(law_out) != 3 * n:
        law_fail = ("runner", "", f"output length {len(law_out)} for {3 * n} law cases", "")
    else:
        for i, (l, after) in enumerate(law_meta):
            if law_out[i] != after:
                law_fail = law_fail or ("writing back the value just read changed the buffer", ident[i], law_out[i], after)
            if law_out[n + i] != law_out[2 * n + i]:
                law_fail = law_fail or ("a second store into the field depends on the value stored before it",
                                        lastw_a[i] + "  vs  " + lastw_b[i], law_out[n + i], law_out[2 * n + i])
    if law_fail:
        vlib.violation(ctx, {"what": law_fail[0], "failing_input": law_fail[1], "implementation": law_fail[2],
                             "expected": law_fail[3]})
        nviol += 1
    gen = c02_gen.run_gen_phase(ctx)
    if not diffs and not info["ok"] and nviol == 0:
        vlib.violation(ctx, {"broken": info["reason"], "theorem": "props/C02.v"}, no_input=True)
    vlib.write_evidence(ctx, info, {
        "evaluations": stats["evaluations"] + len(second) + 3 * n, "distinct_nontrivial": len(classes), "rule": RULE,
        "samples": stats["samples"][:2] + [{"store": meta[i][0], "load_back": second[i], "implementation": back[i]} for i in (0, len(second) // 2)],
        "input_distribution": stats["histogram"], "exhaustive": True, "round_trips": len(second),
        "known_D1_round_trips": d1_seen, "law_cases_identity_and_last_store_wins": 3 * n, "disagreements": len(diffs),
        "generated_setter_sequences": gen})


def replay(ctx, path):
    from checks import c01
    c01.replay(ctx, path)
