"""C12 — address-collision analysis is sound and complete."""
import json, os, random, collections, itertools, copy
import vlib, adef
from checks import gen_common, addr_common as ac

RULE = ("object trees generated to NEARLY collide (addresses and block offsets from a pool of 8 values, strides 0/+-1/+-2/+-3/4/+-8, "
        "counts 0..4, self-collision via stride 0, nesting depth <= 3, repeated blocks, register/command refs with and without "
        "address/repeat override, block refs, mixed kinds, allow flags on one/both objects and on the ref itself), rendered as "
        "DSL/JSON/YAML/TOML, run through the REAL transform_*; the MIR of the real front end is parsed and BOTH the Coq model "
        "(addr_check = address_types_* + lowering + addresses_non_overlapping) and the Coq SPEC (instances/collision) are "
        "evaluated on it by vm_compute; compared: (i) implementation vs model: status, error kind, both names incl. indices, "
        "address; (ii) implementation vs spec verdict + first colliding pair. distinct = distinct abstract definitions. "
        "The exhaustive family is every ordered pair of {register, command, buffer, register-ref, command-ref} x target flag x "
        "own flag at equal/different address.")

POOL = [0, 1, 2, 3, 4, 5, 6, 8]
OFFS = [None, 0, 0, 1, 2, 4, 8, -1, -2]
STRIDES = [0, 0, 1, 1, -1, 2, -2, 3, -3, 4, 8, -8]
TYPES = ["i64", "i32", "i16"]


def gen_repeat(rng, p=0.45):
    if rng.random() > p:
        return None
    # count 0 is legal: the object (or every object of the block) then has NO instance and can collide with nothing
    return {"count": rng.choice([0, 1, 2, 2, 3, 3, 4]), "stride": rng.choice(STRIDES)}


def gen_flag(rng):
    return rng.choice([None, None, None, True, True, False])


def gen_leaf(rng, nm, stats):
    k = rng.choice(["register", "register", "register", "command", "command", "buffer"])
    addr = rng.choice(POOL)
    name = nm.fresh()
    stats["kind_" + k] += 1
    if k == "register":
        return adef.mk_register(name, addr, 8, ac.small_field(), repeat=gen_repeat(rng), allow_address_overlap=gen_flag(rng))
    if k == "command":
        rep, fl = gen_repeat(rng), gen_flag(rng)
        if rep is None and fl is None and rng.random() < 0.5:
            return adef.mk_command(name, addr, basic=True)
        return adef.mk_command(name, addr, repeat=rep, allow_address_overlap=fl)
    return adef.mk_buffer(name, addr)


def gen_objects(rng, nm, depth, budget, stats):
    objs = []
    n = rng.choice([1, 2, 2, 3, 3, 4]) if depth == 0 else rng.choice([1, 1, 2, 2, 3])
    for _ in range(n):
        if budget[0] <= 0:
            break
        budget[0] -= 1
        if depth < 3 and rng.random() < (0.3 if depth == 0 else 0.22):
            stats["kind_block"] += 1
            stats["max_depth"] = max(stats["max_depth"], depth + 1)
            rep = gen_repeat(rng, 0.4)
            if rep is not None:
                stats["repeated_blocks"] += 1
            objs.append(adef.mk_block(nm.fresh(), gen_objects(rng, nm, depth + 1, budget, stats),
                                      address_offset=rng.choice(OFFS), repeat=rep))
        else:
            objs.append(gen_leaf(rng, nm, stats))
    return objs


def add_refs(rng, nm, d, stats):
    objs = d["objects"]
    nrefs = rng.choice([0, 0, 1, 1, 2, 3])
    for _ in range(nrefs):
        cands = [o for o, _, _ in ac.all_objects(objs) if o["kind"] in ("register", "command", "block")]
        if not cands:
            return
        t = rng.choice(cands)
        lists = [objs] + [o["objects"] for o, _, _ in ac.all_objects(objs) if o["kind"] == "block"]
        lst = rng.choice(lists)
        if t["kind"] == "block":
            encl = ac.enclosing_blocks(objs, lst)
            # no cycle: the target must not (transitively) contain the block that will hold the ref
            if any(ac.block_reaches(objs, t, b["name"]) for b in encl) or (lst is t["objects"]):
                continue
            ov = {"kind": "block", "address_offset": rng.choice([None, 0, 1, 2, 4, 8, 16]), "repeat": gen_repeat(rng, 0.3)}
            stats["block_refs"] += 1
        elif t["kind"] == "register":
            own = rng.choice([None, None, True, True, False])
            ov = {"kind": "register", "address": rng.choice([None] + POOL), "repeat": gen_repeat(rng, 0.3),
                  "allow_address_overlap": own, "access": None, "reset_value": None}
            stats["register_refs"] += 1
            stats["ref_own_flag"] += 1 if own else 0
            stats["ref_no_address"] += 1 if ov["address"] is None else 0
        else:
            own = rng.choice([None, None, True, True, False])
            ov = {"kind": "command", "address": rng.choice([None] + POOL), "repeat": gen_repeat(rng, 0.3),
                  "allow_address_overlap": own}
            stats["command_refs"] += 1
            stats["ref_own_flag"] += 1 if own else 0
            stats["ref_no_address"] += 1 if ov["address"] is None else 0
        if ov["kind"] != "block" and all(v is None for k, v in ov.items() if k != "kind"):
            ov["address"] = rng.choice(POOL)     # the DSL requires at least one override item on a command ref
        lst.insert(rng.randrange(0, len(lst) + 1), adef.mk_ref(nm.fresh(), t["name"], ov))


def gen_def(rng, stats):
    while True:
        nm = ac.Namer(rng)
        local = collections.Counter()
        d = {"config": adef.mk_config(register_address_type=rng.choice(TYPES), command_address_type=rng.choice(TYPES),
                                      buffer_address_type=rng.choice(TYPES)),
             "objects": gen_objects(rng, nm, 0, [rng.choice([2, 3, 4, 5, 6, 8])], local)}
        add_refs(rng, nm, d, local)
        if ac.count_instances(d["objects"]) <= 300:
            for k, v in local.items():
                if k == "max_depth":
                    stats["depth_%d" % v] += 1
                else:
                    stats[k] += v
            if "max_depth" not in local:
                stats["depth_0"] += 1
            return d


def lone_family():
    """ONE object definition per kind at most — an instance can still collide with another instance of the SAME object
    ("so an object can collide with itself"): its own repeat with stride 0 or a stride smaller than nothing, an enclosing
    repeated block whose stride is smaller than the span of the object's own repeat, a block and a block ref placed on
    the same offset; each with and without ALLOW_ADDRESS_OVERLAP and with bystanders of the OTHER kinds (seed C12-7 skipped
    the whole analysis when no kind had two object definitions)."""
    out = []
    cfg = lambda: adef.mk_config(register_address_type="i32", command_address_type="i32", buffer_address_type="i32")

    def leaf(kind, allow, rep):
        if kind == "register":
            return adef.mk_register("Solo", 4, 8, ac.small_field(), repeat=rep, allow_address_overlap=allow or None)
        return adef.mk_command("Solo", 4, repeat=rep, allow_address_overlap=allow or None)

    for kind in ("register", "command"):
        others = [adef.mk_buffer("Byb", 4)] + ([adef.mk_command("Byc", 4)] if kind == "register" else
                                                [adef.mk_register("Byr", 4, 8, ac.small_field())])
        for allow in (False, True):
            for with_others in (False, True):
                extra = others if with_others else []
                # own repeat, stride 0 (count 2 and 3) and a harmless one
                for rep in ({"count": 2, "stride": 0}, {"count": 3, "stride": 0}, {"count": 3, "stride": 2}, {"count": 1, "stride": 0}):
                    out.append({"config": cfg(), "objects": [leaf(kind, allow, rep)] + extra})
                # repeated block whose stride is smaller than / equal to / larger than the span of the inner repeat
                for bstride in (0, 2, 4, 6, 8):
                    blk = adef.mk_block("Blk", [leaf(kind, allow, {"count": 4, "stride": 2})], address_offset=16,
                                        repeat={"count": 2, "stride": bstride})
                    out.append({"config": cfg(), "objects": [blk] + extra})
                # the block and a ref to it: same offset, different offset
                for off in (16, 17, 100):
                    blk = adef.mk_block("Blk", [leaf(kind, allow, None)], address_offset=16)
                    out.append({"config": cfg(), "objects": [blk, adef.mk_ref("Blr", "Blk", {"kind": "block", "address_offset": off})] + extra})
    return out


def exhaustive_family():
    """every ordered pair of leaf forms x flags at equal / different address"""
    forms = []
    for fl in (False, True):
        forms.append(("register", fl, None))
        forms.append(("command", fl, None))
        for own in (False, True):
            forms.append(("regref", fl, own))
            forms.append(("cmdref", fl, own))
    forms.append(("buffer", False, None))
    out = []
    for (fa, fb) in itertools.product(forms, forms):
        for same in (True, False):
            objs = []
            tgt_r = adef.mk_register("Tar", 40, 8, ac.small_field())
            tgt_c = adef.mk_command("Tac", 40)
            need_r = need_c = False
            for idx, (form, fl, own) in enumerate((fa, fb)):
                name = "Obja" if idx == 0 else "Objb"
                addr = 5 if (idx == 0 or same) else 6
                if form == "register":
                    objs.append(adef.mk_register(name, addr, 8, ac.small_field(), allow_address_overlap=fl or None))
                elif form == "command":
                    objs.append(adef.mk_command(name, addr, allow_address_overlap=fl or None))
                elif form == "buffer":
                    objs.append(adef.mk_buffer(name, addr))
                elif form == "regref":
                    need_r = True
                    tname = "Tara" if idx == 0 else "Tarb"
                    objs.append(adef.mk_register(tname, 40 + idx, 8, ac.small_field(), allow_address_overlap=fl or None))
                    objs.append(adef.mk_ref(name, tname, {"kind": "register", "address": addr, "allow_address_overlap": own or None,
                                                          "repeat": None, "access": None, "reset_value": None}))
                else:
                    tname = "Taca" if idx == 0 else "Tacb"
                    objs.append(adef.mk_command(tname, 40 + idx, allow_address_overlap=fl or None))
                    objs.append(adef.mk_ref(name, tname, {"kind": "command", "address": addr, "allow_address_overlap": own or None,
                                                          "repeat": None}))
            out.append({"config": adef.mk_config(register_address_type="u8", command_address_type="u8", buffer_address_type="u8"),
                        "objects": objs})
    return out


def flag_family():
    """Two plain objects x the three spellings of the overlap flag (absent, explicit false, explicit true) x same / other
    address, with the verdict written down from the property text (an oracle on the ABSTRACT definition: the model sees the
    MIR of the real front end, so a front end that reads `ALLOW_ADDRESS_OVERLAP = false` as true is invisible to it —
    seed C12-8).  -> [(definition, expected implementation verdict)]"""
    out = []
    mk = {"register": lambda n, a, fl: adef.mk_register(n, a, 8, ac.small_field(), allow_address_overlap=fl),
          "command": lambda n, a, fl: adef.mk_command(n, a, allow_address_overlap=fl),
          "buffer": lambda n, a, fl: adef.mk_buffer(n, a)}
    for ka, kb in itertools.product(("register", "command", "buffer"), repeat=2):
        for fa, fb in itertools.product((None, False, True), repeat=2):
            if (ka == "buffer" and fa is not None) or (kb == "buffer" and fb is not None):
                continue
            for same in (True, False):
                d = {"config": adef.mk_config(register_address_type="u8", command_address_type="u8", buffer_address_type="u8"),
                     "objects": [mk[ka]("Obja", 5, fa), mk[kb]("Objb", 5 if same else 6, fb)]}
                collide = same and ka == kb and not (fa is True and fb is True)
                out.append((d, "error:address_overlap:Obja|Objb|5" if collide else "ok"))
    return out


def judge(e, d10_open):
    """-> (verdict, detail): 'agree' | 'D10' | 'violation'"""
    impl = e["impl"]
    if e["coq"] is None or e["coq"].startswith("<<COQ-ERROR"):
        return "violation", "no model result: " + str(e["coq"])[:300]
    parts = e["coq"].split(" ## ")
    model, spec, own = parts[0], parts[1], parts[2]
    if not ac.impl_matches_model(impl, model):
        return "violation", f"implementation {impl!r} vs model {model!r}"
    # (ii) implementation vs spec
    if spec == "none":
        want = "ok"
    elif spec.startswith("collision:"):
        a, b, addr, tags = spec[len("collision:"):].split("|")
        want = f"error:address_overlap:{a}|{b}|{addr}"
    else:
        return "violation", f"spec evaluation failed: {spec}"
    if impl == want:
        return "agree", ""
    if d10_open and own == "true":
        return "D10", f"implementation {impl!r}, spec {spec!r}"
    return "violation", f"implementation {impl!r} vs spec {spec!r}"


def fn_name():
    return f'c12_result {ac.fx_flag()} {ac.FUEL} "{ac.DEV}"'


def run(ctx):
    info = vlib.coq_gate(ctx)
    exe, err = gen_common.build_gen_runner(ctx)
    if err:
        vlib.violation(ctx, {"broken": err}, no_input=True)
        vlib.write_evidence(ctx, info, {"evaluations": 0, "distinct_nontrivial": 0, "rule": RULE, "samples": []})
        return
    rng = random.Random(ctx.seed)
    n = 2000 if ctx.tier == "quick" else 30000
    stats = collections.Counter()
    items, defs = [], {}
    # corpus first
    cdir = os.path.join(vlib.VERIF, "corpus", "C12")
    if os.path.isdir(cdir):
        for f in sorted(os.listdir(cdir)):
            if f.endswith(".json"):
                d = json.load(open(os.path.join(cdir, f)))
                cid = "k" + f[:-5]
                defs[cid] = (d["adef"], d.get("syntax", "dsl"))
                items.append((cid, d["adef"], d.get("syntax", "dsl"), adef.render(d["adef"], d.get("syntax", "dsl"))))
    for i, d in enumerate(exhaustive_family() + lone_family()):
        cid = f"x{i}"
        defs[cid] = (d, "dsl")
        items.append((cid, d, "dsl", adef.render(d, "dsl")))
    expect_impl = {}
    for i, (d, want) in enumerate(flag_family()):
        for sx in ("dsl", "json", "yaml", "toml"):
            cid = f"f{i}{sx}"
            defs[cid] = (d, sx)
            expect_impl[cid] = want
            items.append((cid, d, sx, adef.render(d, sx)))
    nex = len(items)
    for i in range(n):
        d = gen_def(rng, stats)
        sx = rng.choice(["dsl", "dsl", "dsl", "json", "yaml", "toml"])
        cid = f"c{i}"
        defs[cid] = (d, sx)
        items.append((cid, d, sx, adef.render(ac.respell_refs(d, rng), sx, rng)))
        stats["syntax_" + sx] += 1
    fn = fn_name()
    res = ac.run_batch(ctx, exe, items, fn, tag="c12")
    d10 = ac.finding_entry("C12", "D10")
    verdicts = collections.Counter()
    outcome_hist = collections.Counter()
    bad, known = [], []
    distinct = set()
    for (cid, d, sx, tx) in items:
        e = res[cid]
        v, detail = judge(e, d10 is not None)
        if v != "violation" and cid in expect_impl and e["impl"] != expect_impl[cid]:
            v, detail = "violation", (f"implementation {e['impl']!r}, the verdict written down from the property text for this pair of "
                                      f"objects and overlap flags is {expect_impl[cid]!r} (syntax {sx})")
        verdicts[v] += 1
        impl = e["impl"]
        outcome_hist[impl.split(":")[1] if impl.startswith("error:") else impl] += 1
        distinct.add(json.dumps(d, sort_keys=True))
        if v == "violation":
            bad.append((cid, detail))
        elif v == "D10":
            known.append((cid, detail))
    acc = outcome_hist["ok"] / max(1, len(items))
    if known:
        cid, detail = min(known, key=lambda k: (" spec 'none'" not in k[1] and "'none'" not in k[1], len(res[k[0]]["res"].get("mir") or "")))
        vlib.known_finding(ctx, d10, f"a ref's own allow_address_overlap is dropped by the lowering: {len(known)} definitions rejected/"
                                     f"reported differently although the spec (target flag OR own flag) allows the overlap; e.g. {detail}")
    if bad:
        bad.sort(key=lambda b: len(items[[x[0] for x in items].index(b[0])][3]))
        cid, detail = bad[0]
        d, sx = defs[cid]
        key = judge(res[cid], d10 is not None)[0]
        small = ac.shrink(ctx, exe, d, lambda e: judge(e, d10 is not None)[0] == "violation"
                          and (e["impl"] == "ok" or e["impl"].startswith("error:address_overlap") or e["impl"] in ("panic", "abort")), fn)
        sres = ac.run_batch(ctx, exe, [("r", small, "dsl", adef.render(small, "dsl"))], fn, tag="c12r")["r"]
        vlib.violation(ctx, {"what": "address-collision analysis of the real generator disagrees with the proven model / the collision spec",
                             "failing_input": {"syntax": "dsl", "text": adef.render(small, "dsl"), "adef": small},
                             "original_input": {"syntax": sx, "adef": d},
                             "implementation": sres["impl"], "message": sres["message"], "model_and_spec": sres["coq"],
                             "detail": judge(sres, d10 is not None)[1] or detail, "disagreements": len(bad)})
    elif not info["ok"]:
        vlib.violation(ctx, {"broken": info["reason"], "theorem": "props/C12.v"}, no_input=True)
    if not (0.2 <= acc <= 0.9):
        ctx.log(f"warning: accepted ratio {acc:.2f} outside the sanity band")
    ids = [items[0][0], items[nex][0], items[nex + n // 2][0]]
    samples = [{"syntax": defs[c][1], "text": [x for x in items if x[0] == c][0][3], "implementation": res[c]["impl"],
                "model_spec_ownflag": res[c]["coq"]} for c in ids]
    vlib.write_evidence(ctx, info, {
        "evaluations": len(items), "distinct_nontrivial": len(distinct), "rule": RULE, "samples": samples,
        "input_distribution": dict(stats), "outcomes": dict(outcome_hist), "accepted_ratio": round(acc, 3),
        "verdicts": dict(verdicts), "exhaustive": False, "exhaustive_family": {"family": "pairs of leaf forms x flags x equal/different address + lone-object self-collision family",
                                                   "cases": nex, "complete": True},
        "model_variant": "fx=" + ac.fx_flag(), "disagreements": len(bad)})


def replay(ctx, path):
    d = json.load(open(path))
    fi = d.get("failing_input")
    if not fi:
        run(ctx)
        return
    exe, err = gen_common.build_gen_runner(ctx)
    text = fi.get("text") or adef.render(fi["adef"], fi.get("syntax", "dsl"))
    e = ac.run_batch(ctx, exe, [("r", fi.get("adef"), fi.get("syntax", "dsl"), text)], fn_name(), tag="c12r")["r"]
    v, detail = judge(e, ac.finding_entry("C12", "D10") is not None)
    ctx.log("impl:", e["impl"], "| model ## spec ## own:", e["coq"], "|", v, detail)
    if v == "violation":
        vlib.violation(ctx, {"failing_input": fi, "implementation": e["impl"], "model_and_spec": e["coq"], "detail": detail})
