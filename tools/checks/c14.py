"""C14 — name and reference validation accepts exactly resolvable, collision-free input.

Parts (see notes/C14.md):
  gate   props/C14.v (theorems about Case.v / Names.v) re-proved, hygiene, Print Assumptions.
  A      Case.v vs convert_case 0.6 as used by the REAL generator: ASCII names pushed through the real
         front ends; the normalised names are read back out of the generator's error messages
         (enum value too high: variant | enum | object | field; dangling register ref: ref | target) —
         these messages are produced before any identifier is built, so arbitrary printable ASCII is
         observable — and the boundaries the real Boundary::list_from derived are read out of the MIR.
         The Coq model is evaluated (vm_compute) on the MIR the real front end produced.
  B      trees with spellings that coincide only after normalisation, across depths, ref/object clashes,
         duplicate fields/variants/enums, refs to later/deeper/enclosing targets, wrong kinds, missing
         targets, ref-of-buffer / ref-of-ref / layout overrides, device names, all four syntaxes:
         accept/reject + error kind + names (dangling refs: membership in the model's candidate set, the
         HashMap order is not deterministic — D13), and for accepted definitions every emitted name
         (structs, getters, enums, variants, accessor methods incl. what each ref resolves to,
         new_as_<ref>) against the model.
  D11 (block ref nested in its own target: stack overflow) was repaired in /repo df1ac90 (refs_validated ends with
  ensure_no_recursive_block_refs) and D14 (register ref with reset override to a missing / non-register target:
  panic in reset_values_converted) in 0a1d247: both are compared with the model like every other definition
  (cyclic block refs: rejected, kind ref_recursive, names of the ref and of its target; a generator crash on them is
  a VIOLATION).  Cyclic / near-miss shapes: CYC_SHAPES (corpus + injected into random trees).  Any disagreement is a
  VIOLATION with a shrunk definition.  (While a finding is listed as open in KNOWN_FINDINGS.jsonl the historical
  model of that behaviour is used instead and the class is reported as KNOWN-FINDING.)
"""
import collections, concurrent.futures, copy, json, os, random, re
import vlib, adef
from checks import gen_common

RULE = ("A: random + boundary-biased printable-ASCII names (mixed case, digits, _ - space, acronyms, leading/trailing/"
        "repeated delimiters, single characters, punctuation) x word-boundary configs (default / random subsets in array "
        "form / Boundary::list_from string form) through the real DSL/JSON/YAML/TOML front ends; normalised names read "
        "from the generator's error messages and boundaries from the MIR; compared with Case.v evaluated in Coq on the "
        "real MIR. B: random object trees (depth <= 3) with stem spellings colliding only after normalisation, refs to "
        "earlier/later/deeper/enclosing/missing/wrong-kind targets, block refs inside their own target (direct, through sub "
        "blocks, through other block refs, 2- and 3-cycles) and legal near-misses (sibling, chain from the root, diamond), "
        "duplicate fields/enums/variants, forbidden override shapes, device names; compared: status, error kind + names (dangling refs: member of the model's candidate "
        "set), all emitted names + ref resolution for accepted definitions. distinct = distinct names (A) / distinct "
        "abstract definitions (B)")

KEYWORDS = set("as break const continue crate else enum extern false fn for if impl in let loop match mod move mut pub ref "
               "return self Self static struct super trait true type unsafe use where while async await dyn abstract become "
               "box do final macro override priv typeof unsized virtual yield try gen union config block register command "
               "buffer default catch_all uint int bool".split())

SYNTAXES_M = ["json", "yaml", "toml"]

# ---------------------------------------------------------------------------------------------- part A

TOKENS = ["my", "Reg", "REG", "reg", "A", "B", "b", "x", "1", "22", "0", "_", "-", " ", "__", "X9", "aB", "HTTP", "Server",
          "Id", "ID", "v2", "V2", "a1B2", "Z", "q", "_-", "- ", "9a", "A9"]
PUNCT = ".:;,!#$%&'()*+/<=>?@[]^`{|}~"


def rand_name(rng, manifest):
    r = rng.random()
    if manifest:
        if r < 0.5:
            n = rng.choice([1, 2, 2, 3, 3, 4, 5])
            s = "".join(rng.choice(TOKENS) for _ in range(n))
        else:
            n = rng.choice([1, 1, 2, 2, 3, 4, 5, 6, 8, 10, 14])
            s = ""
            for _ in range(n):
                c = rng.random()
                if c < 0.33:
                    s += rng.choice("abcdefghijklmnopqrstuvwxyz")
                elif c < 0.63:
                    s += rng.choice("ABCDEFGHIJKLMNOPQRSTUVWXYZ")
                elif c < 0.76:
                    s += rng.choice("0123456789")
                elif c < 0.84:
                    s += "_"
                elif c < 0.90:
                    s += "-"
                elif c < 0.95:
                    s += " "
                else:
                    s += rng.choice(PUNCT)
        if s == "":
            s = rng.choice(["_", "-", " ", "a"])
        return s
    # DSL identifiers
    while True:
        if r < 0.5:
            n = rng.choice([1, 2, 2, 3, 3, 4, 5])
            s = "".join(rng.choice([t for t in TOKENS if t and all(ch.isalnum() or ch == "_" for ch in t)]) for _ in range(n))
        else:
            n = rng.choice([1, 1, 2, 2, 3, 4, 5, 6, 8, 10, 14])
            s = "".join(rng.choice("abcdefghijklmnopqrstuvwxyzABCDEFGHIJKLMNOPQRSTUVWXYZ0123456789___") for _ in range(n))
        if s and not s[0].isdigit() and s != "_" and s not in KEYWORDS and not s.isdigit():
            return s
        r = rng.random()


def rand_boundaries(rng):
    """-> (config value or None, kind)"""
    r = rng.random()
    if r < 0.35:
        return None, "default"
    if r < 0.75:
        k = rng.choice([0, 1, 1, 2, 3, 4, 6, 8, 10])
        bs = [rng.choice(adef.BOUNDARIES) for _ in range(k)]
        if rng.random() < 0.3:
            bs = [b.lower() if rng.random() < 0.5 else b.upper() for b in bs]
        return bs, "array"
    n = rng.choice([0, 1, 2, 3, 4, 5, 6, 8])
    s = "".join(rng.choice("aAbB19_- :.zZ") for _ in range(n))
    if rng.random() < 0.2:
        s = rng.choice(["aA:AAa:_:-: :a1:A1", "aA:1B", "-", "_", "AAa", "Aa", "AAAa", "a1A", "1a1A"])
    return s, "string"


def gen_case_a(rng, i):
    syntax = rng.choice(["dsl", "json", "yaml", "toml"])
    manifest = syntax != "dsl"
    bval, bkind = rand_boundaries(rng)
    cfg = adef.mk_config(register_address_type="u8", name_word_boundaries=bval)
    if rng.random() < 0.7:
        names = [rand_name(rng, manifest) for _ in range(4)]
        v, e, o, f = names
        if manifest and v in ("name", "description"):
            v += "x"
        if manifest and o == "config":
            o = "Config"
        reg = adef.mk_register(o, 0, 8, [adef.mk_field(f, "uint", 0, 1, conv=adef.mk_enum(e, [adef.mk_variant(v, 5)], use_try=True),
                                                       form="excl")])
        d = {"config": cfg, "objects": [reg]}
        kind = "enum_probe"
    else:
        r_, t = rand_name(rng, manifest), rand_name(rng, manifest)
        if manifest and r_ == "config":
            r_ = "Config"
        d = {"config": cfg, "objects": [adef.mk_ref(r_, t, {"kind": "register", "address": 1})]}
        names = [r_, t]
        kind = "ref_probe"
    return {"id": f"a{i}", "syntax": syntax, "text": adef.render(d, syntax, None), "name": "Dev", "want": ["mir", "noparse"]}, \
           {"kind": kind, "names": names, "bkind": bkind, "bval": bval, "adef": d}


MIR_BOUNDS = re.compile(r"name_word_boundaries: \[([^\]]*)\]")


def mir_boundaries(r):
    m = MIR_BOUNDS.search(r.get("mir") or "")
    if not m:
        return None
    return ",".join(x.strip() for x in m.group(1).split(",") if x.strip())


# ---------------------------------------------------------------------------------------------- part B

STEMS = [["my", "reg"], ["my", "regs"], ["foo"], ["foo", "bar"], ["ctrl"], ["status", "a"], ["dat", "x1"], ["cfg", "b", "c"],
         ["id"], ["mode", "sel"], ["ab"], ["a", "b"], ["port", "2", "x"], ["irq"], ["irq", "en"], ["fifo"], ["q"], ["tx", "buf"],
         ["rx", "buf"], ["bank"], ["sub", "bank"], ["chan"], ["lut"], ["w", "dog"]]
FIELD_STEMS = [["en"], ["val"], ["val", "hi"], ["mode"], ["f", "x"], ["fx"], ["bit", "0"], ["flag", "a"], ["cnt"]]
ENUM_STEMS = [["mode", "kind"], ["sel"], ["e", "a"], ["ea"], ["state"], ["pol", "x"], ["lvl"]]
VAR_STEMS = [["on"], ["off"], ["a", "b"], ["ab"], ["hi", "z"], ["low"], ["v", "1"], ["idle"]]
DEV_NAMES = ["myDev", "my_dev", "MYDEV", "Dev1", "Dev1x", "Dev1X", "dev", "D", "ABc", "ABC", "MyDev", "Foo1Bar", "X9", "DevA",
             "DeviceX", "device", "My_Dev", "AB", "Ab1"]
B_PRESETS = [None, None, None, None, None, None, ["Underscore"], ["Underscore", "LowerUpper"], "aA:_", list(adef.BOUNDARIES), [],
             ["Hyphen", "Space"], "a1:A1:_"]


def boundary_set(bval):
    if bval is None:
        return {"Underscore", "Hyphen", "Space", "LowerUpper", "UpperDigit", "DigitUpper", "DigitLower", "LowerDigit", "Acronym"}
    if isinstance(bval, list):
        return set(bval)
    s = set()
    if "_" in bval:
        s.add("Underscore")
    if "-" in bval:
        s.add("Hyphen")
    if " " in bval:
        s.add("Space")
    return s


def spell(rng, stem, manifest, bset):
    styles = ["snake", "pascal", "camel", "upper_snake", "mixed", "flat_upper", "trail", "double"]
    if manifest and "Hyphen" in bset:
        styles += ["kebab", "upper_kebab"]
    if manifest and "Space" in bset:
        styles += ["space"]
    st = rng.choice(styles)
    cap = [w[:1].upper() + w[1:] for w in stem]
    if st == "snake":
        return "_".join(stem)
    if st == "pascal":
        return "".join(cap)
    if st == "camel":
        return stem[0] + "".join(cap[1:])
    if st == "upper_snake":
        return "_".join(w.upper() for w in stem)
    if st == "mixed":
        return "_".join(cap)
    if st == "flat_upper":
        return "".join(w.upper() for w in stem)
    if st == "trail":
        return "_".join(stem) + "_"
    if st == "double":
        return "__".join(stem)
    if st == "kebab":
        return "-".join(stem)
    if st == "upper_kebab":
        return "-".join(w.upper() for w in stem)
    return " ".join(stem)


class TreeGen:
    def __init__(self, rng, manifest, bset):
        self.rng, self.manifest, self.bset = rng, manifest, bset
        self.addr = 0
        self.used = []
        self.enum_used = []
        self.refs = []
        self.nrefs = 0

    def pick(self, pool, used, dup=0.07):
        rng = self.rng
        free = [s for s in pool if s not in used]
        if free and not (used and rng.random() < dup):
            s = rng.choice(free)
        else:
            s = rng.choice(used if used else pool)
        used.append(s)
        return spell(rng, s, self.manifest, self.bset)

    def next_addr(self):
        self.addr += 1
        return self.addr

    def fields(self):
        rng = self.rng
        n = rng.choice([0, 0, 1, 1, 2, 3])
        used, out = [], []
        for i in range(n):
            name = self.pick(FIELD_STEMS, used, dup=0.1)
            conv = None
            if rng.random() < 0.4:
                vused = []
                variants = [adef.mk_variant(self.pick(VAR_STEMS, vused, dup=0.12)) for _ in range(rng.choice([1, 2, 2, 3]))]
                conv = adef.mk_enum(self.pick(ENUM_STEMS, self.enum_used, dup=0.15), variants, use_try=True)
            out.append(adef.mk_field(name, "uint", 2 * i, 2 * i + 2, conv=conv, form="excl"))
        return out

    def level(self, depth):
        rng = self.rng
        n = rng.choice([1, 2, 3, 3, 4, 5]) if depth == 0 else rng.choice([0, 1, 1, 2, 3])
        objs = []
        for _ in range(n):
            r = rng.random()
            if r < 0.32:
                objs.append(adef.mk_register(self.pick(STEMS, self.used), self.next_addr(), 8, self.fields()))
            elif r < 0.45:
                if rng.random() < 0.5:
                    objs.append(adef.mk_command(self.pick(STEMS, self.used), self.next_addr(), basic=True))
                else:
                    objs.append(adef.mk_command(self.pick(STEMS, self.used), self.next_addr(), size_bits_in=8, size_bits_out=8,
                                                fields_in=self.fields() or [adef.mk_field("din", "uint", 0, 2, form="excl")],
                                                fields_out=self.fields()))
            elif r < 0.53:
                objs.append(adef.mk_buffer(self.pick(STEMS, self.used), self.next_addr()))
            elif r < 0.75 and depth < 3:
                name = self.pick(STEMS, self.used)
                objs.append(adef.mk_block(name, self.level(depth + 1), address_offset=0))
            else:
                ref = adef.mk_ref(self.pick(STEMS, self.used), None, None)
                self.refs.append(ref)
                objs.append(ref)
        return objs

    def resolve_refs(self, objs):
        rng = self.rng
        allobjs = [o for o, _ in adef.walk(objs)]
        real = {k: [o for o in allobjs if o["kind"] == k] for k in ("block", "register", "command", "buffer", "ref")}
        parents = {}

        def note(os_, chain):
            for o in os_:
                parents[id(o)] = list(chain)
                if o["kind"] == "block":
                    note(o["objects"], chain + [o])
        note(objs, [])
        for ref in self.refs:
            self.nrefs += 1
            r = rng.random()
            cands = real["block"] + real["register"] + real["register"] + real["command"]
            mode = "good"
            if r < 0.78 and cands:
                t = rng.choice(cands)
                if t["kind"] == "block" and any(p is t for p in parents[id(ref)]) and rng.random() < 0.6:
                    others = [c for c in cands if not (c["kind"] == "block" and any(p is c for p in parents[id(ref)]))]
                    if others:
                        t = rng.choice(others)
                kind = t["kind"]
                target = self.respell(t["name"])
            elif r < 0.88 and (real["buffer"] + [x for x in real["ref"] if x is not ref] + cands):
                mode = "wrong_kind"
                t = rng.choice(real["buffer"] + [x for x in real["ref"] if x is not ref] + cands)
                kind = rng.choice([k for k in ("block", "register", "command") if k != t["kind"]])
                target = self.respell(t["name"])
            else:
                mode = "missing"
                kind = rng.choice(["block", "register", "register", "command"])
                free = [s for s in STEMS if s not in self.used]
                target = spell(rng, rng.choice(free) if free else ["no", "such"], self.manifest, self.bset)
            k = self.nrefs
            if kind == "block":
                ov = {"kind": "block", "address_offset": 1000 * (2 ** min(k, 14))}
            elif kind == "register":
                ov = {"kind": "register", "address": 500 + k}
                if rng.random() < 0.3:
                    ov["reset_value"] = rng.choice([0, 1, 3])
                if rng.random() < 0.2:
                    ov["access"] = rng.choice(["RO", "RW"])
            else:
                ov = {"kind": "command", "address": 700 + k}
            ref["target"], ref["override"], ref["_mode"] = target, ov, mode

    def respell(self, name):
        # a different spelling of the same stem if we know it, else the name itself
        rng = self.rng
        for pool in (STEMS,):
            for s in pool:
                if name in _all_spellings(s):
                    return spell(rng, s, self.manifest, self.bset)
        return name


_SPELL_CACHE = {}


def _all_spellings(stem):
    key = tuple(stem)
    if key not in _SPELL_CACHE:
        cap = [w[:1].upper() + w[1:] for w in stem]
        _SPELL_CACHE[key] = {"_".join(stem), "".join(cap), stem[0] + "".join(cap[1:]), "_".join(w.upper() for w in stem),
                             "_".join(cap), "".join(w.upper() for w in stem), "_".join(stem) + "_", "__".join(stem),
                             "-".join(stem), "-".join(w.upper() for w in stem), " ".join(stem)}
    return _SPELL_CACHE[key]


FRONT_MUTATIONS_DSL = ["buffer", "ref", "attrs", "fields", "objects", "byte_order", "bit_order", "size_bits", "allow_bit_overlap",
                       "in", "out", "size_bits_in", "size_bits_out", "basic", "novalue", "two"]
FRONT_MUTATIONS_MAN = ["buffer", "ref", "byte_order", "bit_order", "size_bits", "allow_bit_overlap", "fields", "objects",
                       "size_bits_in", "size_bits_out", "fields_in", "access_on_command", "reset_on_command", "address_on_block",
                       "description", "cfg"]


def mutate_front(rng, ref, manifest, m=None):
    """Make the override of `ref` one the front end rejects (or, for some mutations on some kinds, still accepts).
    m: the mutation (default: a random one)."""
    ov = ref["override"]
    if manifest:
        m = m or rng.choice(FRONT_MUTATIONS_MAN)
        if m in ("buffer", "ref"):
            ref["override"] = {"kind": m}
        elif m in ("byte_order",):
            ov["byte_order"] = "LE"
        elif m == "bit_order":
            ov["bit_order"] = "LSB0"
        elif m in ("size_bits", "size_bits_in", "size_bits_out"):
            ov[m] = 8
        elif m == "allow_bit_overlap":
            ov[m] = True
        elif m in ("fields", "objects", "fields_in"):
            ov[m] = {}
        elif m == "access_on_command":
            ov["access"] = "RO"
        elif m == "reset_on_command":
            if ov["kind"] != "register":
                ov["reset_value"] = 0
        elif m == "address_on_block":
            if ov["kind"] == "block":
                ov["address"] = 5
        elif m == "description":
            ov["description"] = "x"
        elif m == "cfg":
            ov["cfg"] = "x"
        # put the new key at a random position (the first unexpected key in SOURCE order is reported)
        if rng.random() < 0.5 and "kind" in ref["override"]:
            items = list(ref["override"].items())
            head = [it for it in items if it[0] == "kind"]
            rest = [it for it in items if it[0] != "kind"]
            rng.shuffle(rest)
            ref["override"] = dict(head + rest)
        return m
    m = m or rng.choice(FRONT_MUTATIONS_DSL)
    kind = ov["kind"]
    if m in ("buffer", "ref"):
        ref["override"] = {"kind": m}
    elif m == "attrs":
        if rng.random() < 0.5:
            ov["cfg"] = "x"
        else:
            ov["doc"] = "text"
    elif m == "fields" and kind == "register":
        ov["fields"] = [adef.mk_field("zz", "uint", 0, 2, form="excl")]
    elif m == "objects" and kind == "block":
        ov["objects"] = [adef.mk_buffer("ZzBuf", 9)]
    elif m in ("byte_order", "two") and kind in ("register", "command"):
        ov["byte_order"] = "LE"
        if m == "two":
            ov["allow_bit_overlap"] = True
            if rng.random() < 0.5:
                ov["bit_order"] = "MSB0"
    elif m == "bit_order" and kind in ("register", "command"):
        ov["bit_order"] = "LSB0"
    elif m == "size_bits" and kind == "register":
        ov["size_bits"] = 8
    elif m == "allow_bit_overlap" and kind in ("register", "command"):
        ov["allow_bit_overlap"] = False
    elif m == "in" and kind == "command":
        ov["fields_in"] = []
    elif m == "out" and kind == "command":
        ov["fields_out"] = []
        if rng.random() < 0.3:
            ov["fields_in"] = []
    elif m in ("size_bits_in", "size_bits_out") and kind == "command":
        ov[m] = 8
    elif m == "basic" and kind == "command":
        ov["basic"] = True
    elif m == "novalue" and kind == "command":
        ov["basic"] = True
        ov["address"] = 77777
        ov["_novalue"] = True
    else:
        return "none"
    return m


def shape_of(ref, manifest):
    """Abstract description of the override as written, as a Coq term of type Names.ov_shape."""
    ov = ref["override"]
    kind = ov["kind"]
    K = {"block": "KBlock", "register": "KRegister", "command": "KCommand", "buffer": "KBuffer", "ref": "KRef"}[kind]
    items = []
    b = lambda x: "true" if x else "false"
    if manifest:
        items = ["type"] + [k for k, v in ov.items() if k != "kind" and not k.startswith("_") and v is not None]
        fl = dict(attrs=False, fields=False, i=False, o=False, objects=False, basic=False, novalue=False)
    else:
        if kind == "register":
            order = [("access", "Access"), ("byte_order", "ByteOrder"), ("bit_order", "BitOrder"), ("address", "Address"),
                     ("size_bits", "SizeBits"), ("reset_value", "ResetValue"), ("repeat", "Repeat"),
                     ("allow_bit_overlap", "AllowBitOverlap"), ("allow_address_overlap", "AllowAddressOverlap")]
        elif kind == "command":
            order = [("byte_order", "ByteOrder"), ("bit_order", "BitOrder"), ("address", "Address"), ("size_bits_in", "SizeBitsIn"),
                     ("size_bits_out", "SizeBitsOut"), ("repeat", "Repeat"), ("allow_bit_overlap", "AllowBitOverlap"),
                     ("allow_address_overlap", "AllowAddressOverlap")]
        elif kind == "block":
            order = [("address_offset", "AddressOffset"), ("repeat", "Repeat")]
        else:
            order = []
        basic = bool(ov.get("basic"))
        if not basic:
            items = [n for k, n in order if ov.get(k) is not None]
        fl = dict(attrs=ov.get("cfg") is not None or ov.get("doc") is not None, fields=bool(ov.get("fields")),
                  i=(not basic) and ov.get("fields_in") is not None, o=(not basic) and ov.get("fields_out") is not None,
                  objects=bool(ov.get("objects")), basic=basic and not ov.get("_novalue"), novalue=bool(ov.get("_novalue")))
    return ("{| os_kind := %s; os_attrs := %s; os_items := [%s]; os_fields := %s; os_in := %s; os_out := %s; os_objects := %s; "
            "os_basic := %s; os_novalue := %s |}") % (K, b(fl["attrs"]), "; ".join(vlib.coq_string(i) for i in items), b(fl["fields"]),
                                                      b(fl["i"]), b(fl["o"]), b(fl["objects"]), b(fl["basic"]), b(fl["novalue"]))


def strip_private(o):
    if isinstance(o, dict):
        return {k: strip_private(v) for k, v in o.items() if not k.startswith("_")}
    if isinstance(o, list):
        return [strip_private(x) for x in o]
    return o


def render_b(d, syntax):
    text = adef.render(strip_private(d), syntax, None)
    if syntax == "dsl":
        text = text.replace(" = 77777", "")
    return text


# Block refs that lie inside their own target (D11, repaired in /repo df1ac90: rejected by refs_validated with
# `Block ref "R" refers to block "T" which contains the ref itself`) and the legal near-misses.
# (expected verdict of a definition made of the shape alone, builder).  Blocks a..d, refs x..w; B = block, F = block ref.
CYC_SHAPES = {
    # the ref is a direct child of its target
    "direct": ("ref_recursive:x|a", lambda B, F: [B("a", [F("x", "a")])]),
    # ... sits in a sub block of its target
    "via_sub_block": ("ref_recursive:x|a", lambda B, F: [B("a", [B("b", [F("x", "a")])])]),
    "via_two_sub_blocks": ("ref_recursive:x|a", lambda B, F: [B("a", [B("b", [B("c", [F("x", "a")])])])]),
    # ... is reached through a second block ref: a { x -> b }, b { y -> a }
    "two_cycle": ("ref_recursive:x|b", lambda B, F: [B("a", [F("x", "b")]), B("b", [F("y", "a")])]),
    "two_cycle_target_first": ("ref_recursive:y|a", lambda B, F: [B("b", [F("y", "a")]), B("a", [F("x", "b")])]),
    "three_cycle": ("ref_recursive:x|b", lambda B, F: [B("a", [F("x", "b")]), B("b", [F("y", "c")]), B("c", [F("z", "a")])]),
    # ... through a block ref and then a sub block of that ref's target
    "ref_then_sub_block": ("ref_recursive:x|b", lambda B, F: [B("a", [F("x", "b")]), B("b", [B("c", [F("y", "a")])])]),
    # ... the enclosing block is a sub block of the target's target
    "sub_block_then_ref": ("ref_recursive:x|c", lambda B, F: [B("a", [B("b", [F("x", "c")])]), B("c", [F("y", "a")])]),
    # a legal ref first, the recursive one later in the same block
    "legal_then_recursive": ("ref_recursive:x|a", lambda B, F: [B("d", []), B("a", [F("w", "d"), F("x", "a")])]),
    # order of the report: the refs of a block come before the refs of its sub blocks (x, not y which is first in pre-order)
    "report_order": ("ref_recursive:x|a", lambda B, F: [B("a", [B("b", [F("y", "b")]), F("x", "a")])]),
    # the cycle does not go through the first block ref's own block: a { w -> b }, b { x -> c }, c { y -> b }
    "cycle_behind_legal_ref": ("ref_recursive:x|c", lambda B, F: [B("a", [F("w", "b")]), B("b", [F("x", "c")]), B("c", [F("y", "b")])]),
    # ---- legal
    "sibling": ("ok", lambda B, F: [B("a", []), B("b", [F("x", "a")])]),
    "sibling_later": ("ok", lambda B, F: [B("b", [F("x", "a")]), B("a", [])]),
    "root_chain": ("ok", lambda B, F: [B("a", []), B("b", [F("x", "a")]), F("y", "b")]),
    "root_ref_to_ref_holder": ("ok", lambda B, F: [F("y", "b"), B("b", [F("x", "a"), F("w", "d")]), B("a", []), B("d", [])]),
    "diamond": ("ok", lambda B, F: [B("d", []), B("b", [F("x", "d")]), B("c", [F("y", "d")]), B("a", [F("z", "b"), F("w", "c")])]),
    "own_sub_block": ("ok", lambda B, F: [B("a", [B("b", []), F("x", "b")])]),
    "sub_block_of_sibling": ("ok", lambda B, F: [B("a", [B("b", [])]), B("c", [F("x", "b")])]),
    "same_target_twice": ("ok", lambda B, F: [B("a", []), B("b", [F("x", "a"), F("y", "a")])]),
    "chain_of_three": ("ok", lambda B, F: [B("c", []), B("b", [F("y", "c")]), B("a", [F("x", "b")]), F("z", "a")]),
}
CYC_STEMS = {k: ["cyc", k] for k in "abcdxyzw"}


def cyc_objects(shape, decl, refn, base):
    """Objects of CYC_SHAPES[shape]; decl(k) / refn(k) spell name k where it is declared / referred to; every block and
    block ref gets its own offset (base, base + 1000, ...)."""
    n = [0]

    def off():
        n[0] += 1
        return base + 1000 * n[0]

    def B(k, objs):
        return adef.mk_block(decl(k), objs, address_offset=off())

    def F(k, t):
        r = adef.mk_ref(decl(k), refn(t), {"kind": "block", "address_offset": off()})
        r["_mode"] = "cyc"
        return r
    return CYC_SHAPES[shape][1](B, F)


def inject_cyc(rng, g, objs):
    """Put one of the shapes into the tree: at the root or inside a random block (depth <= 2), spelled like the rest."""
    shape = rng.choice(sorted(CYC_SHAPES))
    spelled = {}

    def decl(k):
        if k not in spelled:
            spelled[k] = spell(rng, CYC_STEMS[k], g.manifest, g.bset)
        return spelled[k]

    def refn(k):
        return spell(rng, CYC_STEMS[k], g.manifest, g.bset) if rng.random() < 0.5 else decl(k)
    new = cyc_objects(shape, decl, refn, 3000000)
    hosts = [objs] + [o["objects"] for o, dep in adef.walk(objs) if o["kind"] == "block" and dep <= 1]
    host = rng.choice(hosts) if rng.random() < 0.5 else objs
    pos = rng.randrange(len(host) + 1)
    host[pos:pos] = new
    return shape


def gen_case_b(rng, i, force_valid=False):
    syntax = rng.choice(["dsl", "dsl", "json", "yaml", "toml"])
    manifest = syntax != "dsl"
    bval = None if force_valid else rng.choice(B_PRESETS)
    bset = boundary_set(bval)
    g = TreeGen(rng, manifest, bset)
    objs = g.level(0)
    g.resolve_refs(objs)
    cfg = adef.mk_config(register_address_type="u32", command_address_type="u32", buffer_address_type="u32", name_word_boundaries=bval)
    d = {"config": cfg, "objects": objs}
    front = None
    if g.refs and rng.random() < 0.14:
        k = 1 if rng.random() < 0.8 else 2
        for ref in rng.sample(g.refs, min(k, len(g.refs))):
            m = mutate_front(rng, ref, manifest)
            front = m if front is None else front + "+" + m
    shape = inject_cyc(rng, g, objs) if rng.random() < 0.1 else None
    fix_novalue(objs)
    name = "Dev" if rng.random() < 0.85 else rng.choice(DEV_NAMES)
    return make_case_b(f"b{i}", d, syntax, name), {"adef": d, "front": front, "syntax": syntax, "dev_name": name, "shape": shape}


def fix_novalue(objs):
    """The DSL parser accepts a command without `= addr` / `{ }` only as the LAST object of its list (anything else is a
    syntax error, not a C14 matter): keep the value-less form only there, fall back to the basic form elsewhere."""
    for i, o in enumerate(objs):
        if o["kind"] == "block":
            fix_novalue(o["objects"])
        elif o["kind"] == "ref" and o["override"].get("_novalue") and i != len(objs) - 1:
            del o["override"]["_novalue"]
            o["override"]["address"] = 9


def make_case_b(cid, d, syntax, name):
    return {"id": cid, "syntax": syntax, "text": render_b(d, syntax), "name": name, "want": ["mir", "facts"]}


def corpus_b():
    """Fixed definitions run first: the witnesses of D11 / D14, every cyclic / near-miss block-ref shape (CYC_SHAPES), the
    witnesses of the three mutation tests and of generator quirks met while building the check.  `expect` (where given) is
    the verdict written down by hand: the model must produce it (a third, independent opinion on the recursion check)."""
    R = lambda n, a, fs=None: adef.mk_register(n, a, 8, fs or [])
    cfg = lambda **kw: adef.mk_config(register_address_type="u32", command_address_type="u32", buffer_address_type="u32", **kw)
    bo = lambda off: {"kind": "block", "address_offset": off}
    out = [
        ("d11_direct", "dsl", "Dev", [adef.mk_block("A", [adef.mk_ref("B", "A", bo(1000))], address_offset=0)]),
        ("d11_indirect", "json", "Dev", [adef.mk_block("A", [adef.mk_ref("B", "c", bo(1000))], address_offset=0),
                                          adef.mk_block("C", [adef.mk_ref("D", "a", bo(2000))], address_offset=0)]),
        ("d14_missing", "dsl", "Dev", [R("Foo", 0), adef.mk_ref("Bar", "Missing", {"kind": "register", "address": 1, "reset_value": 5})]),
        ("d14_kind", "yaml", "Dev", [adef.mk_command("Foo", 0, basic=True),
                                      adef.mk_ref("Bar", "Foo", {"kind": "register", "address": 1, "reset_value": 5})]),
        ("dangling_no_reset", "dsl", "Dev", [R("Foo", 0), adef.mk_ref("Bar", "Missing", {"kind": "register", "address": 1})]),
        ("mut_a", "dsl", "Dev", [adef.mk_buffer("My_Reg", 1), adef.mk_block("a_b", [adef.mk_buffer("myReg", 2)], address_offset=0)]),
        ("mut_b", "dsl", "Dev", [adef.mk_ref("BANK", "a_b_", {"kind": "register", "address": 501}), R("a_b", 1)]),
        ("mut_c", "dsl", "Dev", [adef.mk_block("FOO", [adef.mk_command("irq", 1, basic=True),
                                                        adef.mk_ref("q", "Irq", {"kind": "command", "address": 702})], address_offset=0)]),
        ("novalue_last", "dsl", "Dev", [adef.mk_command("IRQ", 1, basic=True),
                                         adef.mk_ref("lut", "Irq", {"kind": "command", "basic": True, "address": 77777, "_novalue": True})]),
        ("deep_later_target", "toml", "MyDev", [adef.mk_ref("alias", "MY-REG", {"kind": "register", "address": 9, "reset_value": 1}),
                                                 adef.mk_block("outer", [adef.mk_block("inner", [R("my_reg", 1)], address_offset=0)],
                                                               address_offset=0)]),
        ("method_collision", "dsl", "Dev", [R("aB1c", 0), R("ab1c", 1)]),
        ("bad_device_name", "dsl", "my_dev", [R("r", 0)]),
    ]
    # an object named `config` INSIDE a block is an ordinary object in every syntax (the global-config entry is a key of the
    # top-level map only): a ref to it resolves, and it collides with a `Config` elsewhere (seeds C16-10 / C14-11 dropped it in
    # the manifest front end; the verdicts are written down because the model only sees what the front end kept)
    for j, syn in enumerate(("json", "yaml", "toml", "dsl")):
        out.append((f"nested_config_ref_{syn}", syn, "Dev", [adef.mk_block("Bk", [R("config", 1)], address_offset=100),
                                                             adef.mk_ref("Cs", "config", {"kind": "register", "address": 9})]))
        out.append((f"nested_config_dup_{syn}", syn, "Dev", [adef.mk_block("Bk", [R("config", 1)], address_offset=100), R("Config", 5)]))
    expect = {"d11_direct": "error:ref_recursive:B|A", "d11_indirect": "error:ref_recursive:B|C"}
    for syn in ("json", "yaml", "toml", "dsl"):
        expect[f"nested_config_ref_{syn}"] = "ok"
        expect[f"nested_config_dup_{syn}"] = "error:dup_object:Config"
    # every cyclic / near-miss shape alone, in all four syntaxes round-robin, refs spelled differently from the declarations
    for j, shape in enumerate(sorted(CYC_SHAPES)):
        decl = lambda k: "Cyc" + k.upper()
        refn = lambda k: ["cyc_" + k, "CYC_" + k.upper(), "cyc" + k.upper(), "Cyc" + k.upper()][j % 4]
        objs = cyc_objects(shape, decl, refn, 0)
        want = CYC_SHAPES[shape][0]
        if want != "ok":
            r, t = want.split(":")[1].split("|")
            want = "error:ref_recursive:Cyc%s|Cyc%s" % (r.upper(), t.upper())
        out.append(("cyc_" + shape, ["dsl", "json", "yaml", "toml"][j % 4], "Dev", objs))
        expect["cyc_" + shape] = want
    # a legal chain whose innermost block has content: register addresses 1 / 2101 / 52101
    out.append(("cyc_root_chain_with_register", "dsl", "Dev",
                [adef.mk_block("A", [R("Ra", 1)], address_offset=0), adef.mk_block("B", [adef.mk_ref("X", "a", bo(100))], address_offset=2000),
                 adef.mk_ref("Y", "b", bo(50000))]))
    expect["cyc_root_chain_with_register"] = "ok"
    # every forbidden override shape x every kind of override it applies to, once per run in the DSL and in one manifest
    # syntax (round-robin): "an override tries to change layout properties" is a finite list per front end, and the random
    # stream reaches each (mutation, kind) pair only now and then
    frng = random.Random(14)
    j = 0
    for manifest, muts in ((False, FRONT_MUTATIONS_DSL), (True, FRONT_MUTATIONS_MAN)):
        for mut in muts:
            for kind in ("register", "command", "block"):
                if kind == "register":
                    tgt, ov = R("OvTarget", 0, [adef.mk_field("aa", "uint", 0, 4, form="excl")]), {"kind": "register", "address": 40}
                elif kind == "command":
                    tgt = adef.mk_command("OvTarget", 0, basic=True)
                    ov = {"kind": "command", "address": 40}
                else:
                    tgt, ov = adef.mk_block("OvTarget", [R("OvInner", 1)], address_offset=0), {"kind": "block", "address_offset": 4000}
                ref = adef.mk_ref("OvRef", "OvTarget", ov)
                got = mutate_front(frng, ref, manifest, mut)
                if got == "none":
                    continue
                objs = [tgt, ref]     # (the ref last: the value-less command form is only legal there)
                if got in ("buffer", "ref"):
                    objs = [tgt, adef.mk_buffer("OvBuf", 3), ref]
                syntax = ["json", "yaml", "toml"][j % 3] if manifest else "dsl"
                j += 1
                out.append((f"ov_{'man' if manifest else 'dsl'}_{mut}_{kind}", syntax, "Dev", objs))
    cases, metas = [], {}
    for k, (tag, syntax, name, objs) in enumerate(out):
        d = {"config": cfg(), "objects": objs}
        c = make_case_b(f"b{k}", d, syntax, name)
        cases.append(c)
        metas[c["id"]] = {"adef": d, "front": None, "syntax": syntax, "dev_name": name, "corpus": tag, "expect": expect.get(tag)}
    return cases, metas


def rendered_objects(objs, manifest):
    """The objects in the order the front end meets them (pre-order).  The manifest syntaxes render an object list as a map
    keyed by the name as written (adef.to_manifest_tree): of two objects with the SAME spelling the later one replaces the
    earlier one, at the earlier one's position — the earlier object never reaches the front end."""
    if manifest:
        m = {}
        for o in objs:
            m[o["name"]] = o
        objs = list(m.values())
    for o in objs:
        yield o
        if o["kind"] == "block":
            yield from rendered_objects(o["objects"], manifest)


def first_front_term(d, manifest):
    """Coq term: model verdict of the front end = first rejected ref in source (pre-order) order."""
    terms = []
    for o in rendered_objects(d["objects"], manifest):
        if o["kind"] == "ref":
            fn = "front_manifest" if manifest else f"front_dsl {vlib.coq_string(o['name'])}"
            terms.append(f"{fn} ({shape_of(o, manifest)})")
    return "show_result_unit (first_error [" + "; ".join(terms) + "])"


# ---------------------------------------------------------------------------------------------- observation -> strings

def facts_blocks(f):
    out = []
    for b in f["blocks"]:
        ms = []
        for m in b["methods"]:
            k = m.get("kind")
            if k == "register":
                ty = m.get("field_set") or "-"
            elif k == "block":
                ty = m.get("block") or "-"
            elif k == "command":
                ty = m.get("field_set_in") or "-"
            else:
                ty = "-"
            ms.append(f"{m['name']}>{ty}")
        out.append(f"{b['name']}({','.join(ms)})")
    return " ".join(out)


def facts_sets(f):
    sets = " ".join(f"{s['name']}({','.join(g['name'] for g in s['getters'])})[{','.join(n['name'] for n in s['new_as'])}]"
                    for s in f["field_sets"])
    enums = " ".join(f"{e['name']}[{','.join(v['name'] for v in e['variants'])}]" for e in f["enums"])
    return f"sets:{sets} enums:{enums}"


def impl_string(r):
    st = gen_common.canon_status(r)
    if st == "ok":
        f = r.get("facts")
        if not f:
            return "ok:<no facts: parse_ok=%s %s>" % (r.get("parse_ok"), (r.get("parse_error") or "")[:100])
        return "ok:" + facts_blocks(f) + " ## " + facts_sets(f)
    if st == "panic":
        return "panic:" + (r.get("message") or "")[:120]
    return st


def agree(impl, model):
    """-> (agrees, known_finding_id or None)"""
    m_res = model.split(" ## ")[0]
    if m_res.startswith("ok:"):
        return impl == model, None
    if m_res.startswith("error:"):
        return impl == m_res, None
    if m_res.startswith("oneof:"):
        cands = ["error:" + c for c in m_res[len("oneof:"):].split(";")]
        return impl in cands, None
    if m_res == "abort:unbounded_ref_lowering":
        return impl == "abort", "D11"
    if m_res.startswith("panic:reset_ref_"):
        w = m_res[len("panic:reset_ref_"):]
        return impl.startswith("panic:") and ("validated already for " + w) in impl, "D14"
    return False, None


def model_fn():
    """Which model of Names.v the real generator is compared with.  Current tree (D14, D9, D11 repaired):
    c14_full_repaired = refs_validated first, ending with ensure_no_recursive_block_refs (ref_recursive), block refs lowered
    to an accessor only.  Historical, only while the finding is listed as open: D14 open -> pass order of the unrepaired
    tree (reset_values_converted before refs_validated); D11 open -> no recursion check, lowering expands block refs."""
    open_ids = {k["id"] for k in vlib.load_known_findings("C14")}
    if "D14" in open_ids:
        return "c14_full"
    if "D11" in open_ids:
        return "c14_full_refs_first"
    return "c14_full_repaired"


def run_gen_parallel(ctx, exe, cases, tag, shards=8):
    if len(cases) < 64:
        return gen_common.run_gen(ctx, exe, cases, tag=tag)
    parts = [cases[i::shards] for i in range(shards)]
    res = {}
    with concurrent.futures.ThreadPoolExecutor(max_workers=shards) as ex:
        for r in ex.map(lambda p: gen_common.run_gen(ctx, exe, p[1], tag=f"{tag}{p[0]}"), list(enumerate(parts))):
            res.update(r)
    return res


PRE = gen_common.PREAMBLE.format(mods="Case Names")


def fill_mir_of_aborted(ctx, exe, cases, res, tag):
    """A case that killed the process has no output line, hence no MIR.  The MIR does not depend on the device name
    and a non-Pascal device name makes lir_transform return before the ref lowering: re-run those cases that way."""
    again = [dict(c, name="not_pascal_", want=["mir", "noparse"]) for c in cases if res[c["id"]].get("status") == "abort"]
    if again:
        r2 = gen_common.run_gen(ctx, exe, again, tag=tag + "ab")
        for c in again:
            if r2.get(c["id"], {}).get("mir"):
                res[c["id"]]["mir"] = r2[c["id"]]["mir"]


def eval_b(ctx, cases, metas, res, tag, exe=None):
    """-> dict id -> model string (front-end verdict when there is no MIR)"""
    if exe:
        fill_mir_of_aborted(ctx, exe, cases, res, tag)
    terms = []
    for c in cases:
        cid = c["id"]
        r = res[cid]
        t = None
        try:
            t = gen_common.mir_term(r)
        except Exception:
            t = None
        if t is not None:
            terms.append((cid, f"{model_fn()} {vlib.coq_string(c['name'])} ({t})"))
        else:
            terms.append((cid, first_front_term(metas[cid]["adef"], c["syntax"] != "dsl")))
    return vlib.coq_eval_strings(ctx, PRE, terms, tag=tag, shard_size=120)


def shrink_b(ctx, exe, case, meta):
    """Greedy deletion of objects / fields / conversions while implementation and model still disagree."""
    cur = copy.deepcopy(meta["adef"])
    syntax, name = case["syntax"], case["name"]

    def variants(d):
        outs = []

        def paths(objs, prefix):
            for i, o in enumerate(objs):
                yield prefix + [i]
                if o["kind"] == "block":
                    yield from paths(o["objects"], prefix + [i, "objects"])
        for p in list(paths(d["objects"], [])):
            nd = copy.deepcopy(d)
            cont = nd["objects"]
            for step in p[:-1]:
                cont = cont[step]
            del cont[p[-1]]
            outs.append(nd)
        for p in list(paths(d["objects"], [])):
            nd = copy.deepcopy(d)
            o = nd["objects"]
            for step in p:
                o = o[step]
            for key in ("fields", "fields_in", "fields_out"):
                fs = o.get(key)
                if fs:
                    for j in range(len(fs)):
                        nd2 = copy.deepcopy(nd)
                        o2 = nd2["objects"]
                        for step in p:
                            o2 = o2[step]
                        if fs[j].get("conv") is not None:
                            nd3 = copy.deepcopy(nd2)
                            o3 = nd3["objects"]
                            for step in p:
                                o3 = o3[step]
                            o3[key][j]["conv"] = None
                            outs.append(nd3)
                        del o2[key][j]
                        outs.append(nd2)
        if name != "Dev":
            outs.append(("name", copy.deepcopy(d)))
        return outs

    for _ in range(12):
        vs = variants(cur)
        if not vs:
            break
        cs, ms = [], {}
        for k, v in enumerate(vs):
            nm = name
            if isinstance(v, tuple):
                nm, v = "Dev", v[1]
            try:
                c = make_case_b(f"s{k}", v, syntax, nm)
            except Exception:
                continue
            cs.append(c)
            ms[c["id"]] = {"adef": v}
        if not cs:
            break
        res = gen_common.run_gen(ctx, exe, cs, tag="shrink")
        model = eval_b(ctx, cs, ms, res, "shrinkm", exe)
        nxt = None
        for c in cs:
            ok, _k = agree(impl_string(res[c["id"]]), model[c["id"]])
            if not ok and "COQ-ERROR" not in model[c["id"]]:
                nxt = (ms[c["id"]]["adef"], c["name"])
                break
        if nxt is None:
            break
        cur, name = nxt
    return cur, name


# ---------------------------------------------------------------------------------------------- run

GEN_RUNNER_VMEM_KB = 2 * 1024 * 1024


def capped(ctx, exe):
    """gen_runner behind an address-space limit.  An unbounded expansion of cyclic block refs does not always overflow the
    stack: with the lowering of /repo 7e1bb11 and WITHOUT the recursion check of df1ac90 the collision pass grows the heap
    instead (observed: 64 GB, global OOM kill after minutes, per cyclic definition).  With the limit the allocation fails,
    the process aborts within seconds and the case is reported as status abort like a stack overflow."""
    w = os.path.join(ctx.work, "gen_runner_capped.sh")
    with open(w, "w") as f:
        f.write("#!/bin/sh\nulimit -v %d\nexec %s \"$@\"\n" % (GEN_RUNNER_VMEM_KB, exe))
    os.chmod(w, 0o755)
    return w


def get_exe(ctx):
    """VERIF_GEN_RUNNER_EXE: use a pre-built gen_runner (mutation tests build it while /repo is modified and restore
    /repo at once, so that the window in which /repo differs is only the build)."""
    pre = os.environ.get("VERIF_GEN_RUNNER_EXE")
    if pre:
        ctx.log("using pre-built gen_runner", pre)
        return capped(ctx, pre), None
    exe, err = gen_common.build_gen_runner(ctx)
    return (capped(ctx, exe) if exe else exe), err


def run(ctx):
    info = vlib.coq_gate(ctx)
    exe, err = get_exe(ctx)
    if err:
        vlib.violation(ctx, {"broken": err}, no_input=True)
        vlib.write_evidence(ctx, info, {"evaluations": 0, "distinct_nontrivial": 0, "rule": RULE, "samples": []})
        return
    rng = random.Random(ctx.seed)
    quick = ctx.tier == "quick"
    known = {k["id"]: k for k in vlib.load_known_findings("C14")}
    hist = collections.Counter()
    violations = []
    samples = []

    # ---------------- part A
    na = 3000 if quick else 30000
    cases_a, meta_a = [], {}
    for i in range(na):
        c, m = gen_case_a(rng, i)
        cases_a.append(c)
        meta_a[c["id"]] = m
    res_a = run_gen_parallel(ctx, exe, cases_a, "ca")
    terms, bterms = [], []
    for c in cases_a:
        r, m = res_a[c["id"]], meta_a[c["id"]]
        t = None
        try:
            t = gen_common.mir_term(r)
        except Exception:
            pass
        if t is None:
            hist["A_no_mir"] += 1
            m["no_mir"] = True
            continue
        fn = "c14_probe" if m["kind"] == "enum_probe" else "c14_probe_ref"
        terms.append((c["id"], f"{fn} ({t})"))
        if m["bkind"] == "string":
            bterms.append((c["id"] + "L", f"c14_list_from {vlib.coq_string(m['bval'])}"))
    model_a = vlib.coq_eval_strings(ctx, PRE, terms + bterms, tag="ma", shard_size=250)
    names_seen = set()
    n_a_names = 0
    for c in cases_a:
        cid = c["id"]
        r, m = res_a[cid], meta_a[cid]
        hist["A_" + m["kind"]] += 1
        hist["A_syntax_" + c["syntax"]] += 1
        hist["A_boundaries_" + m["bkind"]] += 1
        impl = gen_common.canon_status(r)
        if m.get("no_mir"):
            violations.append(("A", cid, impl, "front end produced no MIR for a well-formed probe definition", r.get("message")))
            continue
        mo = model_a.get(cid, "<<missing>>")
        if m["kind"] == "enum_probe":
            want = "error:enum_value_too_high:" + mo + "|5|1"
        else:
            want = "error:ref_unknown:Register|" + mo
        for nme in m["names"]:
            names_seen.add(nme)
        n_a_names += len(m["names"])
        if impl != want:
            violations.append(("A", cid, impl, want, r.get("message")))
        if m["bkind"] == "string":
            got = mir_boundaries(r)
            wantb = model_a.get(cid + "L")
            hist["A_list_from_checked"] += 1
            if got != wantb:
                violations.append(("A-list_from", cid, got, wantb, m["bval"]))
        if len(samples) < 3 and impl == want:
            samples.append({"part": "A", "syntax": c["syntax"], "names": m["names"], "boundaries": m["bval"], "implementation": impl,
                            "model": want})

    # ---------------- part B
    nb = 2400 if quick else 24000
    cases_b, meta_b = corpus_b()
    ncorpus = len(cases_b)
    for i in range(ncorpus, ncorpus + nb):
        c, m = gen_case_b(rng, i, force_valid=False)
        cases_b.append(c)
        meta_b[c["id"]] = m
    res_b = run_gen_parallel(ctx, exe, cases_b, "cb")
    model_b = eval_b(ctx, cases_b, meta_b, res_b, "mb", exe)
    distinct_b = set()
    n_ok = 0
    known_hits = collections.Counter()
    known_witness = {}
    for c in cases_b:
        cid = c["id"]
        r, m = res_b[cid], meta_b[cid]
        impl = impl_string(r)
        mo = model_b.get(cid, "<<missing>>")
        ok, kf = agree(impl, mo)
        cls = impl.split(":")[1] if impl.startswith("error:") else impl.split(":")[0]
        hist["B_" + cls] += 1
        hist["B_syntax_" + c["syntax"]] += 1
        if m.get("corpus"):
            hist["B_corpus"] += 1
        if m.get("shape"):
            hist["B_shape_" + m["shape"]] += 1
            hist["B_shape_injected"] += 1
        if m.get("expect"):
            m_res = mo.split(" ## ")[0]
            if not (m_res.startswith("ok:") if m["expect"] == "ok" else m_res == m["expect"]):
                violations.append(("B-corpus-expectation", cid, impl, mo, "verdict written down for corpus definition %s: %s"
                                   % (m["corpus"], m["expect"])))
        if m["front"]:
            hist["B_front_mutation"] += 1
        if c["name"] != "Dev":
            hist["B_devname_varied"] += 1
        for o, dep in adef.walk(m["adef"]["objects"]):
            if o["kind"] == "ref":
                hist["B_ref_" + str(o.get("_mode"))] += 1
            hist["B_depth_%d" % dep] += 1
        distinct_b.add(json.dumps(strip_private(m["adef"]), sort_keys=True) + c["name"])
        if impl.startswith("ok:"):
            n_ok += 1
        if ok and kf:
            known_hits[kf] += 1
            known_witness.setdefault(kf, {"syntax": c["syntax"], "text": c["text"], "implementation": impl, "model": mo.split(" ## ")[0]})
            if kf not in known:
                violations.append(("B-unlisted-finding-" + kf, cid, impl, mo, r.get("message")))
        elif not ok:
            violations.append(("B", cid, impl, mo, r.get("message")))
        if len(samples) < 8 and ok and (impl.startswith("ok:") or len(samples) < 6):
            samples.append({"part": "B", "syntax": c["syntax"], "text": c["text"], "device_name": c["name"], "implementation": impl, "model": mo})

    for kf, n in known_hits.items():
        if kf in known:
            vlib.known_finding(ctx, known[kf], f"{n} definitions: " + {
                "D11": "block ref nested inside its own target: generator process dies with a stack overflow (model: no fuel suffices)",
                "D14": "register ref overriding the reset value with a missing / non-register target: generator PANICS in "
                       "reset_values_converted (runs before refs_validated) instead of reporting the dangling ref"}.get(kf, kf))

    # ---------------- observations (recorded, never decide the run; see notes/C14.md)
    obs_cases = [
        {"id": "O1", "syntax": "dsl", "name": "Dev", "want": ["facts"], "text":
            "config { type RegisterAddressType = u8; }\nregister aB1c { const ADDRESS = 0; const SIZE_BITS = 8; },\n"
            "register ab1c { const ADDRESS = 1; const SIZE_BITS = 8; }\n"},
        {"id": "O2a", "syntax": "json", "name": "Dev", "want": ["noparse"], "text":
            '{"config": {"register_address_type": "u8"}, "1reg": {"type": "register", "address": 0, "size_bits": 8}}'},
        {"id": "O2b", "syntax": "json", "name": "Dev", "want": ["noparse"], "text":
            '{"config": {"register_address_type": "u8"}, "_": {"type": "register", "address": 0, "size_bits": 8}}'},
        {"id": "O2c", "syntax": "json", "name": "Dev", "want": ["noparse"], "text":
            '{"config": {"register_address_type": "u8", "name_word_boundaries": ["Underscore"]}, '
            '"my-reg": {"type": "register", "address": 0, "size_bits": 8}}'},
    ]
    obs_res = gen_common.run_gen(ctx, exe, obs_cases, tag="obs")
    observations = {}
    for c in obs_cases:
        r = obs_res[c["id"]]
        o = {"input": c["text"], "status": r.get("status"), "message": r.get("message")}
        if r.get("facts"):
            o["root_methods"] = [m["name"] for m in r["facts"]["blocks"][0]["methods"]]
            o["structs"] = [s_["name"] for s_ in r["facts"]["field_sets"]]
        observations[c["id"]] = o

    acc = n_ok / max(1, len(cases_b))
    if violations:
        violations.sort(key=lambda v: (v[0], len((cases_b[int(v[1][1:])] if v[1].startswith("b") else cases_a[int(v[1][1:])])["text"])))
        part, cid, impl, mo, msg = violations[0]
        if cid.startswith("b"):
            c, m = cases_b[int(cid[1:])], meta_b[cid]
            try:
                small, nm = shrink_b(ctx, exe, c, m)
                sc = make_case_b("r", small, c["syntax"], nm)
                sres = gen_common.run_gen(ctx, exe, [sc], tag="final")
                smod = eval_b(ctx, [sc], {"r": {"adef": small}}, sres, "finalm", exe)
                fi = {"part": "B", "syntax": sc["syntax"], "text": sc["text"], "name": nm, "adef": strip_private(small)}
                impl, mo, msg = impl_string(sres["r"]), smod["r"], sres["r"].get("message")
            except Exception as ex:  # shrinking must never hide the violation
                ctx.log("shrink failed:", ex)
                fi = {"part": "B", "syntax": c["syntax"], "text": c["text"], "name": c["name"], "adef": strip_private(m["adef"])}
        else:
            c, m = cases_a[int(cid[1:])], meta_a[cid]
            fi = {"part": part, "syntax": c["syntax"], "text": c["text"], "name": c["name"], "kind": m["kind"], "boundaries": m["bval"]}
        vlib.violation(ctx, {"what": "name/reference validation of the real generator disagrees with the proven model "
                                     "(Case.v / Names.v; C14_accept_iff ties the model to the property's disjunction)",
                             "failing_input": fi, "implementation": impl, "model_and_spec": mo, "message": msg,
                             "disagreements": len(violations),
                             "disagreement_kinds": dict(collections.Counter(v[0] for v in violations))})
    elif not info["ok"]:
        vlib.violation(ctx, {"broken": info["reason"], "theorem": "props/C14.v"}, no_input=True)

    targeted = ["B_dup_object", "B_dup_field", "B_dup_enum", "B_dup_variant", "B_ref_unknown", "B_ref_recursive", "B_device_name",
                "B_dsl_ref_buffer",
                "B_dsl_ref_ref", "B_dsl_override_forbidden", "B_manifest_ref_buffer", "B_manifest_ref_ref", "B_manifest_unexpected_key",
                "B_ok"]
    missing = [t for t in targeted if hist[t] == 0]
    if missing:
        ctx.log("warning: targeted classes never produced:", missing)
    if not (0.2 <= acc <= 0.9):
        ctx.log(f"warning: accepted ratio {acc:.2f} outside the sanity band")
    vlib.write_evidence(ctx, info, {
        "evaluations": len(cases_a) + len(cases_b), "distinct_nontrivial": len(names_seen) + len(distinct_b), "rule": RULE,
        "part_A": {"definitions": len(cases_a), "names_compared": n_a_names, "distinct_names": len(names_seen),
                   "list_from_strings_compared": hist["A_list_from_checked"]},
        "part_B": {"definitions": len(cases_b), "distinct_definitions": len(distinct_b), "accepted": n_ok,
                   "accepted_ratio": round(acc, 3), "known_finding_hits": dict(known_hits)},
        "known_finding_witnesses": known_witness,
        "observations": observations,
        "targeted_classes_missing": missing,
        "samples": samples, "input_distribution": dict(sorted(hist.items())), "accepted_ratio": round(acc, 3),
        "disagreements": len(violations)})


def replay(ctx, path):
    d = json.load(open(path))
    fi = d.get("failing_input")
    if not fi:
        run(ctx)
        return
    exe, err = get_exe(ctx)
    if fi.get("part") == "B":
        c = {"id": "r", "syntax": fi["syntax"], "text": fi["text"], "name": fi.get("name", "Dev"), "want": ["mir", "facts"]}
        res = gen_common.run_gen(ctx, exe, [c], tag="replay")
        model = eval_b(ctx, [c], {"r": {"adef": fi.get("adef", {"objects": []})}}, res, "replaym", exe)
        impl, mo = impl_string(res["r"]), model["r"]
        ok, kf = agree(impl, mo)
        ctx.log("impl :", impl)
        ctx.log("model:", mo)
        if not ok:
            vlib.violation(ctx, {"failing_input": fi, "implementation": impl, "model_and_spec": mo, "message": res["r"].get("message")})
        elif kf:
            ctx.log("agrees with the recorded behaviour of known finding", kf)
        return
    c = {"id": "r", "syntax": fi["syntax"], "text": fi["text"], "name": fi.get("name", "Dev"), "want": ["mir", "noparse"]}
    res = gen_common.run_gen(ctx, exe, [c], tag="replay")
    impl = gen_common.canon_status(res["r"])
    t = gen_common.mir_term(res["r"])
    terms = []
    if t:
        terms = [("p", f"c14_probe ({t})"), ("q", f"c14_probe_ref ({t})")]
    if isinstance(fi.get("boundaries"), str):
        terms.append(("l", f"c14_list_from {vlib.coq_string(fi['boundaries'])}"))
    mo = vlib.coq_eval_strings(ctx, PRE, terms, tag="replaya")
    want = ("error:enum_value_too_high:" + mo.get("p", "?") + "|5|1") if fi.get("kind") == "enum_probe" else \
           ("error:ref_unknown:Register|" + mo.get("q", "?"))
    ctx.log("impl :", impl, "| boundaries in MIR:", mir_boundaries(res["r"]))
    ctx.log("model:", want, "| list_from:", mo.get("l"))
    bad = impl != want or ("l" in mo and mo["l"] != mir_boundaries(res["r"]))
    if bad:
        vlib.violation(ctx, {"failing_input": fi, "implementation": impl, "model_and_spec": want})
