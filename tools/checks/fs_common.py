"""Shared by C03 (generator half) and C06: canonical field-set facts from gen_runner vs FieldSetGen.v."""
import json


def _fn(g):
    """bit-order half of the ops function an accessor calls (`load_lsb0` -> `lsb0`); an accessor whose body is not
    the one call of a `device_driver::ops` function (gen_runner reports func = null) is printed as such, so that it
    differs from every model string instead of crashing the check"""
    f = g.get("func")
    return f.split("_")[1] if isinstance(f, str) and "_" in f else "NO-OPS-CALL"


def canon_fs(facts):
    out = []
    for fs in facts.get("field_sets", []):
        s = f"fs:{fs['name']}:{fs['size_bytes']}:{fs['size_bits']}"
        for g in fs["getters"]:
            s += f"[g:{g['name']}:{_fn(g)}:{g['carrier']}:{g['byte_order']}:{g['start']}:{g['end']}:{g['conv']}:{g['ret']}]"
        for g in fs["setters"]:
            s += f"[s:{g['name']}:{_fn(g)}:{g['carrier']}:{g['byte_order']}:{g['start']}:{g['end']}:{g['conv']}:{g['arg']}]"
        out.append(s)
    return ";".join(out)


CARRIER_BITS = {"u8": 8, "u16": 16, "u32": 32, "u64": 64, "u128": 128, "i8": 8, "i16": 16, "i32": 32, "i64": 64, "i128": 128}


def direct_bounds_violations(facts):
    """The property itself, evaluated on the real call sites: start < end <= size <= 8N, width <= carrier."""
    bad = []
    for fs in facts.get("field_sets", []):
        n, size = fs["size_bytes"], fs["size_bits"]
        if fs.get("new_zero_len") != n or len(fs.get("new", [])) != n:
            bad.append((fs["name"], "constructor length != byte length"))
        if not (size <= 8 * n):
            bad.append((fs["name"], "size_bits > 8*bytes"))
        for a in fs["getters"] + fs["setters"]:
            if not isinstance(a.get("func"), str) or a.get("start") is None or a.get("end") is None:
                # the accessor's body is not the one ops call with literal bounds: what it touches is not established
                bad.append((fs["name"], a["name"], "accessor does not go through a device_driver::ops call with literal bounds"))
                continue
            s, e = a["start"], a["end"]
            if not (0 <= s < e <= size):
                bad.append((fs["name"], a["name"], f"range {s}..{e} not inside 0..{size}"))
            cb = CARRIER_BITS.get(a["carrier"])
            if cb is None:
                if e - s <= 128:
                    bad.append((fs["name"], a["name"], f"unknown carrier {a['carrier']}"))
            elif e - s > cb:
                bad.append((fs["name"], a["name"], f"width {e - s} > carrier {a['carrier']}"))
            for fn in ("func",):
                if not a[fn].startswith(("load_", "store_")):
                    bad.append((fs["name"], a["name"], "not an ops call"))
    return bad
