"""C06 — generated field-set API implements exactly the declared layout and types."""
import json, os, random, collections
import vlib, adef, l2
from checks import gen_common, fs_common

RULE = ("L1: definitions mixing inclusive/exclusive/single-bit ranges, all byte/bit order and default combinations, all "
        "access values, direct / try / inline-enum conversions, through all four syntaxes; every field-set fact of the real "
        "token stream (name, [u8;N], SIZE_BITS, per accessor: ops function, carrier, byte-order type, literals, conversion "
        "form, return/argument type with the super:: prefix) compared with FieldSetGen.v evaluated on the real MIR, and the "
        "effective orders / accessor presence compared with an oracle computed from the abstract definition (object setting, "
        "else global default, else LSB0 / LE). L2: compiled field sets driven with chosen bytes: From/Into identity, "
        "getters, setters, &,|,^,! compared with the Coq reference interpreter (getter_call/setter_call). "
        "distinct = distinct accessor shapes (size, range mod 8, carrier, function, byte order, conversion)")

FN = ["alpha", "beta", "gamma", "delta", "eps", "zeta"]
ON = ["Ra", "Rb", "Rc", "Rd", "Re"]


def gen_fields(rng, size, l2_safe):
    n = rng.choice([1, 2, 2, 3, 4])
    fields = []
    cuts = sorted(rng.sample(range(1, size), min(n - 1, size - 1))) if size > 1 else []
    bounds = [0] + cuts + [size]
    for i in range(len(bounds) - 1):
        s, e = bounds[i], bounds[i + 1]
        if e - s > 128:
            e = s + 128
        base = rng.choice(["uint", "uint", "int"])
        conv = None
        form = rng.choice([None, "excl", "incl"])
        end = e
        if e - s == 1 and rng.random() < 0.6:
            base = "bool"
            if rng.random() < 0.5:
                end = None
        elif rng.random() < 0.35:
            k = rng.random()
            if k < 0.4:
                # (a path that starts with `super` is relative to the DEVICE's module: it gets the `super::` prefix like
                #  every path that is not anchored with `::` or `crate` — seed C06-7 left it unprefixed)
                conv = adef.mk_direct(rng.choice(["crate::convtypes::Ty", "Ty", "crate::convtypes::Other", "super::convtypes::Ty"]))
            elif k < 0.6:
                conv = adef.mk_direct(rng.choice(["crate::convtypes::TryTy", "TryTy"]), True)
            elif not l2_safe and e - s <= 32:
                w = e - s
                vs = [adef.mk_variant("Va"), adef.mk_variant("Vb", "default" if rng.random() < 0.5 else "catch_all")]
                conv = adef.mk_enum("En" + FN[i].capitalize(), vs, rng.random() < 0.3)
        acc = rng.choice([None, None, "RW", "RO"] + ([] if l2_safe else ["WO"]))
        fields.append(adef.mk_field(FN[i], base, s, end, access=acc, conv=conv, form=form))
    return fields


def gen_def(rng, l2_safe=False):
    cfg = adef.mk_config(register_address_type="u16", command_address_type="u16")
    cfg["default_byte_order"] = rng.choice([None, "LE", "BE"])
    cfg["default_bit_order"] = rng.choice([None, None, "LSB0", "MSB0"])
    cfg["default_field_access"] = rng.choice([None, None, "RW", "RO"] + ([] if l2_safe else ["WO"]))
    cfg["default_register_access"] = rng.choice([None, None, "RW", "RO", "WO"])
    objs = []
    used = set()
    for i in range(rng.choice([1, 2, 3])):
        name = ON[i]
        sizes = [1, 3, 8, 8, 12, 16, 24, 32, 40, 64, 128, 9, 10, 15, 17, 20, 33, 63, 65, 100]   # whole and partial bytes
        bo = rng.choice([None, "LE", "BE"])
        bi = rng.choice([None, None, "LSB0", "MSB0"])
        if rng.random() < 0.75:
            size = rng.choice(sizes)
            if bo is None and cfg["default_byte_order"] is None and size > 8:
                bo = rng.choice(["LE", "BE"])
            # the register's own access (and the global default) must not influence which FIELD accessors exist
            objs.append(adef.mk_register(name, i, size, gen_fields(rng, size, l2_safe), byte_order=bo, bit_order=bi,
                                         access=rng.choice([None, None, "RW", "RO", "WO"])))
        else:
            si = rng.choice([None, 8, 16, 24])
            so = rng.choice([None, 4, 8, 32])
            if bo is None and cfg["default_byte_order"] is None and max(si or 0, so or 0) > 8:
                bo = rng.choice(["LE", "BE"])
            objs.append(adef.mk_command(name, i, size_bits_in=si, size_bits_out=so,
                                        fields_in=gen_fields(rng, si, l2_safe) if si else None,
                                        fields_out=gen_fields(rng, so, l2_safe) if so else None, byte_order=bo, bit_order=bi))
    # enum names must be unique across the device
    for o in objs:
        for tag, fs in adef.field_sets(o):
            for f in fs:
                c = f["conv"]
                if c and c["type"] == "enum":
                    c["name"] = c["name"] + o["name"] + tag.capitalize()   # unique and a fixed point of the normalisation
    return {"config": cfg, "objects": objs}


def oracle_orders(d):
    """From the abstract definition: per emitted set -> (byte order, bit order, {field: (getter?, setter?)})."""
    cfg = d["config"]
    out = {}
    for o, _ in adef.walk(d["objects"]):
        for tag, fs in adef.field_sets(o):
            if o["kind"] == "register":
                name, size = o["name"], o["size_bits"]
            else:
                name = o["name"] + ("FieldsIn" if tag == "in" else "FieldsOut")
                size = o["size_bits_in"] if tag == "in" else o["size_bits_out"]
            if not size:
                continue
            bo = o.get("byte_order") or cfg.get("default_byte_order") or "LE"
            bi = o.get("bit_order") or cfg.get("default_bit_order") or "LSB0"
            acc = {}
            for f in fs:
                a = f["access"] or cfg.get("default_field_access") or "RW"
                acc[f["name"]] = (a in ("RW", "RO"), a in ("RW", "WO"))
            out[name] = (bo, bi, acc)
    return out


def check_oracle(d, facts):
    """-> list of mismatches (set, what)"""
    exp = oracle_orders(d)
    bad = []
    got = {fs["name"]: fs for fs in facts["field_sets"]}
    if set(got) != set(exp):
        bad.append(("*", f"emitted sets {sorted(got)} != declared {sorted(exp)}"))
        return bad
    for name, (bo, bi, acc) in exp.items():
        fs = got[name]
        gn = {g["name"] for g in fs["getters"]}
        sn = {g["name"][4:] for g in fs["setters"]}
        for f, (r, w) in acc.items():
            if (f in gn) != r:
                bad.append((name, f"getter presence of {f}: {f in gn}, declared readable: {r}"))
            if (f in sn) != w:
                bad.append((name, f"setter presence of {f}: {f in sn}, declared writable: {w}"))
        for a in fs["getters"] + fs["setters"]:
            if a["byte_order"] != bo:
                bad.append((name, f"{a['name']} uses byte order {a['byte_order']}, effective is {bo}"))
            if not isinstance(a.get("func"), str):
                bad.append((name, f"{a['name']} does not go through a device_driver::ops load/store function"))
            elif a["func"].split("_")[1].upper() != bi:
                bad.append((name, f"{a['name']} uses {a['func']}, effective bit order is {bi}"))
    return bad


def is_d5(d, syntax, bad):
    """D5 class: manifest front end ignores default_bit_order / default_field_access."""
    if syntax == "dsl":
        return False
    cfg = d["config"]
    for _, what in bad:
        if "effective bit order" in what and cfg.get("default_bit_order") == "MSB0":
            continue
        if "presence" in what and cfg.get("default_field_access") in ("RO", "WO"):
            continue
        return False
    return True


def coq_list(xs):
    return "[" + "; ".join("(%d)%%Z" % x for x in xs) + "]"


def l2_phase(ctx, exe, rng, nmods, crate="c06l2", extra_defs=()):
    """Compiled behaviour vs the Coq reference interpreter. Returns (evaluations, diffs, sample).
    extra_defs: definitions to compile in addition to (before) the nmods generated ones."""
    cases, defs = [], {}
    i = 0
    pending = list(extra_defs)
    nmods += len(pending)
    while len(cases) < nmods and i < nmods * 4:
        i += 1
        d = pending.pop(0) if pending else gen_def(rng, l2_safe=True)
        cid = f"m{len(cases)}"
        defs[cid] = d
        cases.append({"id": cid, "syntax": rng.choice(["dsl", "json"]), "text": None, "name": "Dev", "want": ["mir", "facts", "pretty"]})
        cases[-1]["text"] = adef.render(d, cases[-1]["syntax"], rng)
    res = gen_common.run_gen(ctx, exe, cases)
    mods, main, queries = {}, [], {}
    for c in cases:
        r = res[c["id"]]
        if r.get("status") != "ok" or not r.get("parse_ok"):
            continue
        cid = c["id"]
        mods[cid] = r["pretty"]
        qs = []
        for j, fs in enumerate(r["facts"]["field_sets"]):
            n = fs["size_bytes"]
            ty = f"{cid}::field_sets::{fs['name']}"
            for rep in range(2):
                b = [rng.getrandbits(8) for _ in range(n)]
                b2 = [rng.getrandbits(8) for _ in range(n)]
                lit = "[" + ", ".join(str(x) for x in b) + "]"
                lit2 = "[" + ", ".join(str(x) for x in b2) + "]"
                main.append(f'{{ let fs = {ty}::from({lit}); let o = {ty}::from({lit2});')
                main.append(f'  println!("{cid} {j}.{rep} id {{}}", mock::hex(&<[u8; {n}]>::from(fs)));')
                main.append(f'  println!("{cid} {j}.{rep} ops {{}} {{}} {{}} {{}}", mock::hex(&<[u8; {n}]>::from(fs & o)), mock::hex(&<[u8; {n}]>::from(fs | o)), mock::hex(&<[u8; {n}]>::from(fs ^ o)), mock::hex(&<[u8; {n}]>::from(!fs)));')
                queries.setdefault(cid, [])
                exp_ops = (bytes(x & y for x, y in zip(b, b2)).hex(), bytes(x | y for x, y in zip(b, b2)).hex(),
                           bytes(x ^ y for x, y in zip(b, b2)).hex(), bytes((~x) & 255 for x in b).hex())
                qs.append(("id", cid, j, bytes(b).hex(), rep, b))
                qs.append(("ops", cid, j, " ".join(exp_ops), rep, b, b2))
                for k, g in enumerate(fs["getters"]):
                    conv = g["conv"]
                    if conv == "none":
                        # (the carrier is unknown when the getter is not the one ops call the emitter is known to write —
                        #  reported by the L1 comparison; its BEHAVIOUR is still compared here, typed by what it returns)
                        expr = f"fs.{g['name']}() as " + ("u128" if str(g.get("carrier") or g.get("ret") or "u").startswith("u") else "i128")
                    elif conv == "bool":
                        expr = f"fs.{g['name']}() as i128"
                    elif conv == "into":
                        expr = f"fs.{g['name']}().0"
                    elif conv == "try_into":
                        expr = f"match fs.{g['name']}() {{ Ok(v) => v.0, Err(_) => -999999 }}"
                    else:
                        continue
                    main.append(f'  println!("{cid} {j}.{rep} g{k} {{}}", {expr});')
                    qs.append(("get", cid, j, k, b, conv, rep))
                for k, s in enumerate(fs["setters"]):
                    conv = s["conv"]
                    if s.get("carrier") not in fs_common.CARRIER_BITS or s.get("start") is None or s.get("end") is None:
                        # not the one ops call the emitter is known to write: reported by the L1 comparison above; its
                        # BEHAVIOUR is still compared below through the byte-level queries of the other accessors
                        continue
                    cb = fs_common.CARRIER_BITS[s["carrier"]]
                    w = s["end"] - s["start"]
                    if conv == "bool":
                        v = rng.choice([0, 1])
                        arg = "true" if v else "false"
                    else:
                        if s["carrier"].startswith("i"):
                            v = rng.choice([0, -1, rng.randint(-(1 << (cb - 1)), (1 << (cb - 1)) - 1), (1 << (w - 1)) - 1 if w > 1 else 0])
                        else:
                            v = rng.choice([0, (1 << cb) - 1, rng.randint(0, (1 << cb) - 1), 1 << (w - 1)])
                        if conv == "none":
                            arg = f"{v}{s['carrier']}" if v >= 0 else f"({v}{s['carrier']})"
                        else:
                            v = rng.choice([0, 1, rng.randint(0, (1 << min(cb - 1, 100)) - 1)])
                            # the emitted path is relative to the field_sets module of crate::<mod>: one `super` is the device
                            # module (where `Ty` is a private glob import of crate::convtypes), two are the crate root
                            tyname = s["arg"]
                            if tyname.startswith("super::super::"):
                                tyname = "crate::" + tyname[len("super::super::"):]
                            elif tyname.startswith("super::"):
                                tyname = "crate::convtypes::" + tyname[len("super::"):]
                            arg = f"{tyname}({v})"
                    main.append(f'  {{ let mut t = fs; t.{s["name"]}({arg}); println!("{cid} {j}.{rep} s{k} {{}}", mock::hex(&<[u8; {n}]>::from(t))); }}')
                    qs.append(("set", cid, j, k, v, b, rep))
                main.append("}")
        queries[cid] = qs
    if not mods:
        return 0, [], None
    main_rs = "fn main() {\n" + "\n".join(main) + "\n}\n"
    l2.write_crate(ctx, crate, mods, main_rs)
    ok, out = l2.build(ctx, crate)
    if not ok:
        return 0, [("build", "the batch of accepted definitions does not compile", out[-1500:], None)], None
    rc, stdout, stderr = l2.run_bin(ctx, crate)
    got = {}
    for line in stdout.splitlines():
        p = line.split(" ", 3)
        got[(p[0], p[1], p[2])] = p[3] if len(p) > 3 else ""
    # model
    terms = []
    for cid, qs in queries.items():
        t = gen_common.mir_term(res[cid])
        ql = []
        for q in qs:
            if q[0] == "get":
                ql.append(f"QGet {q[2]} {q[3]} {coq_list(q[4])}")
            elif q[0] == "set":
                ql.append(f"QSet {q[2]} {q[3]} ({q[4]})%Z {coq_list(q[5])}")
            elif q[0] == "id":
                ql.append(f"QId {coq_list(q[5])}")
            elif q[0] == "ops":
                ql.append(f"QOps {coq_list(q[5])} {coq_list(q[6])}")
        terms.append((cid, f"({t}) [" + "; ".join(ql) + "]"))
    pre = gen_common.PREAMBLE.format(mods="Layout FieldSetGen")
    model = vlib.coq_eval_strings(ctx, pre, [(cid, "l2_expected " + t) for cid, t in terms], shard_size=6, tag=crate)
    diffs = []
    n = 0
    sample = None
    for cid, qs in queries.items():
        exp = model.get(cid, "").split(";")
        ei = 0
        for q in qs:
            n += 1
            e = exp[ei] if ei < len(exp) else "<missing>"
            ei += 1
            if q[0] in ("id", "ops"):
                # three-way: compiled field set / Coq model (fs_from_bytes .. fs_not) / the property's wording in python
                g = got.get((cid, f"{q[2]}.{q[4]}", q[0]))
                try:
                    want = " ".join(bytes(int(x) for x in part.split(",")).hex() for part in e.split(" "))
                except ValueError:
                    want = e
                if g != want or want != q[3]:
                    diffs.append((cid, q[:5], g, {"model": want, "property": q[3]}))
                continue
            if q[0] == "get":
                g = got.get((cid, f"{q[2]}.{q[6]}", f"g{q[3]}"))
                conv = q[5]
                want = e
                if conv == "bool":
                    want = "1" if e not in ("0", "FAIL") else e
                elif conv == "try_into" and e.lstrip("-").isdigit():
                    iv = int(e)
                    if iv >= 2 ** 127:          # convtypes::TryTy goes through `as i128`
                        iv -= 2 ** 128
                    want = "-999999" if iv >= 100 else str(iv)
                elif conv == "into" and e.lstrip("-").isdigit() and int(e) >= 2 ** 127:
                    want = str(int(e) - 2 ** 128)
                if g != want:
                    diffs.append((cid, q, g, want))
                sample = sample or {"definition": mods[cid][:300], "query": list(q[:4]), "compiled": g, "model": want}
            else:
                g = got.get((cid, f"{q[2]}.{q[6]}", f"s{q[3]}"))
                want = bytes(int(x) for x in e.split(",")).hex() if e and e[0].isdigit() else e
                if g != want:
                    diffs.append((cid, q, g, want))
    l2.cleanup(ctx, crate)
    out = []
    for cid, q, g, want in diffs[:5]:
        c = [c for c in cases if c["id"] == cid][0]
        out.append(("l2", f"compiled field set disagrees with the reference interpreter on {q[0]} (set #{q[2]})",
                    {"compiled": g, "model": want, "query": [str(x) for x in q]}, {"syntax": c["syntax"], "text": c["text"]}))
    return n, out, sample


def run(ctx):
    info = vlib.coq_gate(ctx)
    exe, err = gen_common.build_gen_runner(ctx)
    if err:
        vlib.violation(ctx, {"broken": err}, no_input=True)
        vlib.write_evidence(ctx, info, {"evaluations": 0, "distinct_nontrivial": 0, "rule": RULE, "samples": []})
        return
    known = {k["id"]: k for k in vlib.load_known_findings("C06")}
    rng = random.Random(ctx.seed + 6)
    n = 1000 if ctx.tier == "quick" else 12000
    cases, defs = [], {}
    for i in range(n):
        d = gen_def(rng)
        syntax = ["dsl", "json", "yaml", "toml"][i % 4]
        cid = f"d{i}"
        defs[cid] = d
        cases.append({"id": cid, "syntax": syntax, "text": adef.render(d, syntax, rng), "name": "Dev", "want": ["mir", "facts"]})
    res = gen_common.run_gen(ctx, exe, cases)
    terms = []
    for c in cases:
        r = res[c["id"]]
        if r.get("status") == "ok":
            terms.append((c["id"], gen_common.mir_term(r)))
    model = gen_common.eval_model(ctx, ["Layout", "FieldSetGen"], "field_sets_result", terms, tag="c06")
    hist = collections.Counter()
    shapes = set()
    diffs = []
    d5 = 0
    for c in cases:
        cid = c["id"]
        r = res[cid]
        st = gen_common.canon_status(r)
        hist[st if st == "ok" else st.split(":")[1] if st.startswith("error:") else st] += 1
        hist["syntax_" + c["syntax"]] += 1
        if st != "ok":
            if st in ("panic", "abort"):
                diffs.append((c, "generator " + st, r.get("message"), None))
            elif not st.startswith("error:field_") and not st.startswith("error:bool") and not st.startswith("error:enum"):
                diffs.append((c, "a well-formed definition was rejected", st, "ok"))
            continue
        got = fs_common.canon_fs(r["facts"])
        want = model.get(cid)
        for fs in r["facts"]["field_sets"]:
            for a in fs["getters"] + fs["setters"]:
                shapes.add((fs["size_bits"], (a["start"] or 0) % 8, (a["end"] or 0) % 8, a["carrier"], a["func"], a["byte_order"], a["conv"]))
        if got != want:
            diffs.append((c, "emitted field-set facts differ from the model of the emission", got, want))
            continue
        bad = check_oracle(defs[cid], r["facts"])
        if bad:
            if "D5" in known and is_d5(defs[cid], c["syntax"], bad):
                d5 += 1
            else:
                diffs.append((c, "effective order / accessor presence differs from the declaration", bad[:4], None))
    l2n, l2diffs, l2sample = l2_phase(ctx, exe, rng, 40 if ctx.tier == "quick" else 200)
    for kind, what, got, inp in l2diffs:
        diffs.append(({"syntax": (inp or {}).get("syntax"), "text": (inp or {}).get("text", "")}, what, got, None))
    if d5:
        vlib.known_finding(ctx, known["D5"], f"manifest front end ignored default_bit_order/default_field_access in {d5} definitions")
    if diffs:
        diffs.sort(key=lambda x: len(x[0].get("text") or ""))
        c, what, got, want = diffs[0]
        vlib.violation(ctx, {"what": what, "failing_input": {"syntax": c.get("syntax"), "text": c.get("text")},
                             "implementation": got, "model_and_spec": want, "disagreements": len(diffs)})
    elif not info["ok"]:
        vlib.violation(ctx, {"broken": info["reason"], "theorem": "props/C06.v"}, no_input=True)
    samples = []
    for c in cases[:50]:
        r = res[c["id"]]
        if r.get("status") == "ok":
            samples.append({"syntax": c["syntax"], "text": c["text"][:500], "facts": fs_common.canon_fs(r["facts"])[:400]})
            if len(samples) >= 2:
                break
    if l2sample:
        samples.append(l2sample)
    vlib.write_evidence(ctx, info, {"evaluations": len(cases) + l2n, "distinct_nontrivial": len(shapes), "rule": RULE,
                                    "samples": samples, "input_distribution": dict(hist), "l2_queries": l2n,
                                    "known_D5_definitions": d5, "disagreements": len(diffs)})


def replay(ctx, path):
    d = json.load(open(path))
    fi = d.get("failing_input") or {}
    if not fi.get("text"):
        run(ctx)
        return
    exe, err = gen_common.build_gen_runner(ctx)
    r = gen_common.run_gen(ctx, exe, [{"id": "r", "syntax": fi["syntax"], "text": fi["text"], "name": "Dev", "want": ["mir", "facts"]}])["r"]
    st = gen_common.canon_status(r)
    ctx.log("status:", st)
    if st == "ok":
        got = fs_common.canon_fs(r["facts"])
        want = gen_common.eval_model(ctx, ["Layout", "FieldSetGen"], "field_sets_result", [("r", gen_common.mir_term(r))])["r"]
        ctx.log("impl :", got)
        ctx.log("model:", want)
        if got != want:
            vlib.violation(ctx, {"failing_input": fi, "implementation": got, "model_and_spec": want})
