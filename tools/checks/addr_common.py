"""Shared by c12.py / c13.py: random object trees (blocks, repeats, refs, block refs), running a batch through the
real generator + the Coq model/spec of coq/theories/Addr.v, and a batch shrinker."""
import copy, json, os
import vlib, adef
from checks import gen_common

FUEL = 40          # model fuel: > nesting depth (<= 3) + ref hops + block-ref expansions of every generated tree
DEV = "Dev"

RUST_KW = {"For", "Let", "Mod", "Mut", "Pub", "Ref", "Use", "Dyn", "Box", "Try", "Dev"}
NAMES = [a + b + c for a in "BCDFGHKLMNPRSTVZ" for b in "aeiou" for c in "bdgkmnprstz" if a + b + c not in RUST_KW]


def finding_status(prop, fid):
    """'open' | 'fixed' | None (not recorded) — the LAST line for (id, property) wins."""
    p = os.path.join(vlib.VERIF, "KNOWN_FINDINGS.jsonl")
    st = None
    if os.path.exists(p):
        for line in open(p):
            line = line.strip()
            if not line or line.startswith("#"):
                continue
            try:
                d = json.loads(line)
            except json.JSONDecodeError:
                continue
            if d.get("property") == prop and d.get("id") == fid:
                st = d.get("status")
    return st


def finding_entry(prop, fid):
    for d in vlib.load_known_findings(prop):
        if d.get("id") == fid:
            return d
    return None


def fx_flag():
    """Model variant: D10 repaired in /repo (recorded 'fixed') -> the lowering carries the ref's own flag."""
    return "true" if finding_status("C12", "D10") == "fixed" else "false"


class Namer:
    """Distinct names that are fixed points of the normalisation.  One in five extends a name issued before
    (`Bab` -> `Babgroup`): names of which one is a PREFIX of another must not confuse anything that looks objects or
    enclosing block instances up by name (seed C12-6 matched the name stack with starts_with)."""

    def __init__(self, rng):
        self.pool = list(NAMES)
        rng.shuffle(self.pool)
        self.i = 0
        self.rng = rng
        self.issued = []

    def fresh(self):
        if self.issued and self.rng.random() < 0.2:
            n = self.rng.choice(self.issued) + self.rng.choice(["x", "s", "group", "b"])
            if n not in self.issued and len(n) < 20:
                self.issued.append(n)
                return n
        n = self.pool[self.i]
        self.i += 1
        self.issued.append(n)
        return n


def respell_refs(d, rng, p=0.3):
    """Copy of d in which some refs spell their target differently (`Bab` -> `bab`): the same name after normalisation,
    so the same definition (seed C13-7 ran the address checks before names_normalized, where such a ref has no target)."""
    import copy
    d2 = copy.deepcopy(d)
    for o, _, _ in all_objects(d2["objects"]):
        if o["kind"] == "ref" and rng.random() < p:
            o["target"] = o["target"][0].lower() + o["target"][1:]
    return d2


def small_field():
    return [adef.mk_field("v", "uint", 0, 8)]


def all_objects(objs, parent=None, depth=0):
    """(object, containing list, depth) in pre-order"""
    for o in objs:
        yield o, objs, depth
        if o["kind"] == "block":
            yield from all_objects(o["objects"], o, depth + 1)


def find_obj(objs, name):
    for o, _, _ in all_objects(objs):
        if o["name"] == name:
            return o
    return None


def block_reaches(objs, start, goal_name):
    """does block `start` (dict) contain, through children and block refs, the block named goal_name?"""
    seen = set()
    stack = [start]
    while stack:
        b = stack.pop()
        if b["name"] == goal_name:
            return True
        if b["name"] in seen:
            continue
        seen.add(b["name"])
        for c in b["objects"]:
            if c["kind"] == "block":
                stack.append(c)
            elif c["kind"] == "ref" and c["override"]["kind"] == "block":
                t = find_obj(objs, c["target"])
                if t is not None:
                    stack.append(t)
    return False


def enclosing_blocks(objs, lst):
    """names of the blocks whose object list (transitively) is `lst`"""
    res = []

    def rec(cur, path):
        if cur is lst:
            res.extend(path)
            return True
        for o in cur:
            if o["kind"] == "block" and rec(o["objects"], path + [o]):
                return True
        return False
    rec(objs, [])
    return res


def count_instances(objs, root=None, fuel=12):
    """leaf instances after expansion (python estimate used only to bound the work)"""
    root = root if root is not None else objs
    if fuel == 0:
        return 10 ** 9
    n = 0
    for o in objs:
        k = o["kind"]
        if k in ("register", "command"):
            n += (o.get("repeat") or {"count": 1})["count"]
        elif k == "buffer":
            n += 1
        elif k == "block":
            n += (o.get("repeat") or {"count": 1})["count"] * count_instances(o["objects"], root, fuel - 1)
        elif k == "ref":
            t = find_obj(root, o["target"])
            ov = o["override"]
            if t is None:
                continue
            rep = ov.get("repeat") or t.get("repeat") or {"count": 1}
            if ov["kind"] == "block":
                n += rep["count"] * count_instances(t["objects"], root, fuel - 1)
            else:
                n += rep["count"]
    return n


def has_kind(objs, kind):
    for o, _, _ in all_objects(objs):
        if o["kind"] == kind or (o["kind"] == "ref" and o["override"]["kind"] == kind):
            return True
    return False


def has_block_ref(objs):
    return any(o["kind"] == "ref" and o["override"]["kind"] == "block" for o, _, _ in all_objects(objs))


# ------------------------------------------------------------------ running a batch

def run_batch(ctx, exe, items, fn, tag="b", want=("mir",)):
    """items: list of (id, adef, syntax, text). fn: Coq function applied to the device term, e.g.
    'c12_result false 40 "Dev"'.  Returns dict id -> {"impl", "message", "coq" (string or None), "res"}."""
    cases = [{"id": i, "syntax": sx, "text": tx, "name": DEV, "want": list(want)} for (i, d, sx, tx) in items]
    res = gen_common.run_gen(ctx, exe, cases, tag=tag)
    terms = []
    out = {}
    for (i, d, sx, tx) in items:
        r = res.get(i, {"status": "abort"})
        t = None
        try:
            t = gen_common.mir_term(r)
        except Exception:
            t = None
        out[i] = {"impl": gen_common.canon_status(r), "message": r.get("message"), "coq": None, "res": r, "term": t}
        if t is not None:
            terms.append((i, t))
    fns = fn if isinstance(fn, (list, tuple)) else [fn]
    for k, f in enumerate(fns):
        # the address passes and the lowering see the tree AFTER names_normalized (run_passes order): the model is applied
        # to the normalised MIR, so a ref may spell its target in any way that normalises to the declared name
        m = gen_common.eval_model(ctx, ["Addr", "Names"], f, [(i, f"Names.names_normalized ({t})") for i, t in terms], tag=f"{tag}_m{k}")
        for i, v in m.items():
            if k == 0:
                out[i]["coq"] = v
            else:
                out[i].setdefault("coq_extra", []).append(v)
    return out


def impl_matches_model(impl, model):
    """impl: canon_status string; model: addr_pipeline string"""
    if impl == "panic":
        return model.startswith("panic:") and model != "panic:fuel"
    if impl == "abort":
        return model == "panic:fuel"
    return impl == model


# ------------------------------------------------------------------ shrinking (batch: all one-step reductions at once)

def reductions(d):
    """all definitions obtained from d by one simplifying step"""
    out = []
    objs = d["objects"]
    paths = []

    def rec(lst, path):
        for i, o in enumerate(lst):
            paths.append(path + [i])
            if o["kind"] == "block":
                rec(o["objects"], path + [i])
    rec(objs, [])

    def get_list(root, path):
        lst = root["objects"]
        for i in path[:-1]:
            lst = lst[i]["objects"]
        return lst

    for p in paths:
        # delete the object
        c = copy.deepcopy(d)
        lst = get_list(c, p)
        del lst[p[-1]]
        out.append(c)
        o = get_list(d, p)[p[-1]]
        if o["kind"] == "block":
            # flatten: replace the block by its children
            c = copy.deepcopy(d)
            lst = get_list(c, p)
            lst[p[-1]:p[-1] + 1] = lst[p[-1]]["objects"]
            out.append(c)
        tgt = o["override"] if o["kind"] == "ref" else o
        for key in ("repeat", "allow_address_overlap", "address_offset"):
            if tgt.get(key) is not None and not (key == "address_offset" and o["kind"] != "ref" and tgt.get(key) == 0):
                c = copy.deepcopy(d)
                oo = get_list(c, p)[p[-1]]
                t2 = oo["override"] if oo["kind"] == "ref" else oo
                t2[key] = 0 if (key == "address_offset" and oo["kind"] != "ref") else None
                out.append(c)
        rep = tgt.get("repeat")
        if rep is not None and rep["count"] > 2:
            c = copy.deepcopy(d)
            oo = get_list(c, p)[p[-1]]
            t2 = oo["override"] if oo["kind"] == "ref" else oo
            t2["repeat"] = {"count": rep["count"] - 1, "stride": rep["stride"]}
            out.append(c)
    return out


def shrink(ctx, exe, d, still_fails, fn, rounds=12, tag="shr"):
    """still_fails(entry) -> bool on a run_batch entry. Greedy: first failing one-step reduction, repeated."""
    cur = d
    for _ in range(rounds):
        cands = reductions(cur)
        if not cands:
            break
        items = [(f"s{i}", c, "dsl", adef.render(c, "dsl")) for i, c in enumerate(cands)]
        res = run_batch(ctx, exe, items, fn, tag=tag)
        nxt = None
        for i, c in enumerate(cands):
            e = res[f"s{i}"]
            try:
                if e["coq"] is not None and still_fails(e):
                    nxt = c
                    break
            except Exception:
                continue
        if nxt is None:
            break
        cur = nxt
    return cur
