"""C02, generated level: sequences of setter calls on COMPILED generated field sets.
After every setter call: (1) the field reads back the value reduced to its width, (2) every set-bit outside the field's
declared range is what it was (physical position from the property text: byte order / bit order of the DEFINITION),
(3) every other field reads what it read before; and the bytes equal the Coq reference interpreter
(FieldSetGen.setter_call on the real MIR), which is what carries C02_setter_sequences over to the generated code."""
import collections, random
import vlib, adef, l2
from checks import gen_common, fs_common

FN = ["alpha", "beta", "gamma", "delta", "eps", "zeta", "eta", "theta"]


def carrier_of(base, w):
    for b in (8, 16, 32, 64, 128):
        if w <= b:
            return ("i" if base == "int" else "u") + str(b)


def gen_def(rng):
    cfg = adef.mk_config(register_address_type="u16")
    cfg["default_byte_order"] = rng.choice([None, "LE", "BE"])
    cfg["default_bit_order"] = rng.choice([None, None, "LSB0", "MSB0"])
    objs = []
    for i in range(rng.choice([1, 2, 3])):
        size = rng.choice([1, 3, 7, 8, 9, 12, 16, 16, 24, 32, 40, 48, 56, 64, 72, 100, 120, 128])
        bo = rng.choice([None, "LE", "BE"])
        bi = rng.choice([None, "LSB0", "MSB0", "MSB0"])
        if bo is None and cfg["default_byte_order"] is None and size > 8:
            bo = rng.choice(["LE", "BE"])
        # fields: disjoint, with gaps; single bits are often bools
        cuts = sorted(set(rng.sample(range(0, size + 1), min(size + 1, rng.choice([2, 3, 4, 6, 8])))))
        fields = []
        for k in range(len(cuts) - 1):
            s, e = cuts[k], cuts[k + 1]
            if rng.random() < 0.2 and e - s > 1:
                e = rng.randrange(s + 1, e)      # leave a gap of unowned bits
            if len(fields) >= len(FN):
                break
            if e - s == 1 and rng.random() < 0.7:
                fields.append(adef.mk_field(FN[len(fields)], "bool", s, rng.choice([None, e])))
            else:
                fields.append(adef.mk_field(FN[len(fields)], rng.choice(["uint", "uint", "int"]), s, e))
        if not fields or rng.random() < 0.2:
            # ONE field over the whole set (a carrier wider than the set when the size is 24, 40, 48 .. bits): nothing to
            # preserve, but the value's bytes must still land where the byte order says (seed C02-6 copied the first N
            # bytes of to_be_bytes())
            fields = [adef.mk_field("alpha", rng.choice(["uint", "uint", "int"]), 0, size)]
        allow = None
        if size >= 4 and len(fields) < len(FN) and rng.random() < 0.3:
            # a field that OVERLAPS an existing one: partial, enclosing it, inside it, or equal; declared before or after it.
            # Without AllowBitOverlap the definition must be rejected ("... unless the definition lets them overlap").
            g = rng.choice(fields)
            gs, ge = g["start"], (g["end"] if g["end"] is not None else g["start"] + 1)
            shape = rng.choice(["partial", "encloses", "inside", "equal"])
            if shape == "partial":
                s, e = (max(0, gs - 1), gs + 1) if gs > 0 else (ge - 1, min(size, ge + 1))
            elif shape == "encloses":
                s, e = max(0, gs - 1), min(size, ge + 1)
            elif shape == "inside":
                s, e = (gs + 1, ge - 1) if ge - gs >= 3 else (gs, ge)
            else:
                s, e = gs, ge
            if e - s >= 1 and e <= size and not (e <= gs or ge <= s):
                nf = adef.mk_field(FN[len(fields)], "uint", s, e)
                fields.insert(rng.choice([0, fields.index(g), fields.index(g) + 1, len(fields)]), nf)
                allow = rng.choice([None, None, False, True])
        if rng.random() < 0.4:
            rng.shuffle(fields)           # declaration order is free
        r = adef.mk_register(["Ra", "Rb", "Rc"][i], i, size, fields, byte_order=bo, bit_order=bi)
        if allow is not None:
            r["allow_bit_overlap"] = allow
        objs.append(r)
    return {"config": cfg, "objects": objs}


def must_be_rejected(d):
    """Some field set has two fields sharing a bit and does not allow it."""
    for o in d["objects"]:
        if o.get("allow_bit_overlap"):
            continue
        rs = [(f["start"], f["end"] if f["end"] is not None else f["start"] + 1) for f in o["fields"]]
        for a in range(len(rs)):
            for b in range(a + 1, len(rs)):
                if rs[a][0] < rs[b][1] and rs[b][0] < rs[a][1]:
                    return o["name"], o["fields"][a]["name"], o["fields"][b]["name"]
    return None


def phys(be, msb0, nbytes, k):
    byte = (nbytes - 1 - k // 8) if be else k // 8
    bit = (7 - k % 8) if msb0 else k % 8
    return byte, bit


def getbit(be, msb0, data, k):
    by, bi = phys(be, msb0, len(data), k)
    return (data[by] >> bi) & 1


def coq_list(xs):
    return "[" + "; ".join("(%d)%%Z" % x for x in xs) + "]"


def run_gen_phase(ctx):
    exe, err = gen_common.build_gen_runner(ctx)
    if err:
        vlib.violation(ctx, {"broken": err}, no_input=True)
        return {"evaluations": 0, "distinct": 0}
    known = {k["id"]: k for k in vlib.load_known_findings("C02")}
    rng = random.Random(ctx.seed * 5 + 2)
    nd = 20 if ctx.tier == "quick" else 150
    cases, defs = [], {}
    # a fixed family first: ONE field over the whole set, for every byte-multiple size that is not a carrier size (and two
    # that are), both byte orders and bit orders, unsigned and signed — three registers per definition
    whole = [(sz, bo, bi, base) for sz in (24, 40, 48, 56, 72, 120, 16, 64) for bo in ("LE", "BE") for bi in ("LSB0", "MSB0")
             for base in ("uint", "int")]
    fixed = []
    for k in range(0, len(whole), 3):
        objs = [adef.mk_register(["Ra", "Rb", "Rc"][j], j, sz, [adef.mk_field("alpha", base, 0, sz)], byte_order=bo, bit_order=bi)
                for j, (sz, bo, bi, base) in enumerate(whole[k:k + 3])]
        fixed.append({"config": adef.mk_config(register_address_type="u16"), "objects": objs})
    if ctx.tier == "quick":
        fixed = fixed[ctx.seed % 2::2]          # half of the family per quick run (the thorough tier runs all of it)
    # two fields that share bits with a third, disjoint one between / before / after them, in EVERY declaration order: the
    # order in which fields are written down is free, and sharing bits is sharing bits in each of them (seed C02-8: an
    # overlap test that only looked back when a field started below the END OF THE PREVIOUSLY DECLARED one)
    import itertools
    trio = [("high", 8, 16), ("low", 0, 4), ("mid", 10, 12)]
    for k, perm in enumerate(itertools.permutations(trio)):
        fixed.append({"config": adef.mk_config(register_address_type="u16", default_byte_order="LE"), "objects": [
            adef.mk_register("Ra", 0, 16, [adef.mk_field(n, "uint", a, b) for n, a, b in perm])]})
        if k % 2:
            # the flag written out as `false` is the flag absent (seed C02-11: the DSL took the mere presence of the item as true)
            fixed[-1]["objects"][0]["allow_bit_overlap"] = False
    # a bool written as a bare bit index is ONE bit wide wherever it is looked at: on the first bit of another field, on
    # the bit of another bool, in either declaration order (seed C02-9 compared it as the empty range it is before the bool
    # pass widens it)
    mkb = lambda n, bit: adef.mk_field(n, "bool", bit, None)
    for fl in ([mkb("ready", 4), adef.mk_field("mode", "uint", 4, 8)], [adef.mk_field("mode", "uint", 4, 8), mkb("ready", 4)],
               [mkb("aa", 3), mkb("bb", 3)], [adef.mk_field("lo", "uint", 0, 4), mkb("mid", 7), adef.mk_field("hi", "uint", 7, 8)],
               [mkb("top", 7), adef.mk_field("all", "uint", 0, 8)]):
        fixed.append({"config": adef.mk_config(register_address_type="u16", default_byte_order="LE"), "objects": [
            adef.mk_register("Ra", 0, 8, fl)]})
    quad = [("code", 12, 24), ("ready", 0, 1), ("fault", 1, 2), ("busy", 13, 14)]
    for perm in list(itertools.permutations(quad))[ctx.seed % 3::3]:
        fixed.append({"config": adef.mk_config(register_address_type="u16", default_byte_order="BE"), "objects": [
            adef.mk_register("Ra", 0, 24, [adef.mk_field(n, "uint", a, b) for n, a, b in perm])]})
    for i in range(nd + len(fixed)):
        d = fixed[i] if i < len(fixed) else gen_def(rng)
        cid = f"q{i}"
        defs[cid] = d
        syntax = rng.choice(["dsl", "dsl", "json"])
        cases.append({"id": cid, "syntax": syntax, "text": adef.render(d, syntax, rng), "name": "Dev", "want": ["mir", "facts", "pretty"]})
    res = gen_common.run_gen(ctx, exe, cases, tag="c02g")
    viol = []
    hist = collections.Counter()
    mods, main, plan = {}, [], {}
    for c in cases:
        cid = c["id"]
        r = res[cid]
        d = defs[cid]
        ov = must_be_rejected(d)
        if ov:
            st = gen_common.canon_status(r)
            if st == "ok":
                viol.append((c, f"{ov[0]}: fields {ov[1]} and {ov[2]} share bits and the definition does not allow it, but it is accepted: "
                                f"setting one changes what the other reads", "accepted", "rejected (field_overlap)"))
            elif not st.startswith("error:field_overlap"):
                viol.append((c, f"{ov[0]}: overlapping fields {ov[1]} / {ov[2]}: expected the overlap error", st, "error:field_overlap"))
            else:
                hist["overlap_rejected"] += 1
            continue
        if r.get("status") != "ok" or not r.get("parse_ok"):
            viol.append((c, "a well-formed definition (in-range fields, overlap only where allowed) was not accepted", gen_common.canon_status(r), None))
            continue
        mods[cid] = r["pretty"]
        facts = {fs["name"]: (j, fs) for j, fs in enumerate(r["facts"]["field_sets"])}
        for o in d["objects"]:
            j, fs = facts[o["name"]]
            n = (o["size_bits"] + 7) // 8
            be = (o.get("byte_order") or d["config"].get("default_byte_order") or "LE") == "BE"
            msb0 = (o.get("bit_order") or d["config"].get("default_bit_order") or "LSB0") == "MSB0"
            flds = []
            for f in o["fields"]:
                e = f["end"] if f["end"] is not None else f["start"] + 1
                flds.append({"name": f["name"], "s": f["start"], "e": e, "base": f["base"],
                             "carrier": None if f["base"] == "bool" else carrier_of(f["base"], e - f["start"])})
            getters = {g["name"]: k for k, g in enumerate(fs["getters"])}
            setters = {s["name"][4:]: k for k, s in enumerate(fs["setters"])}
            ty = f"{cid}::field_sets::{fs['name']}"

            def show(tag):
                parts = [f'mock::hex(&<[u8; {n}]>::from(t))']
                fmt = "{}"
                for f in flds:
                    fmt += " {}"
                    parts.append(f"t.{f['name']}() as " + ("i128" if (f["base"] != "uint") else "u128"))
                return f'println!("{cid} {j} {tag} {fmt}", {", ".join(parts)});'
            for rep in range(2):
                b = [rng.choice([0, 255, rng.getrandbits(8)]) if rng.random() < 0.3 else rng.getrandbits(8) for _ in range(n)]
                steps = []
                main.append(f'{{ let mut t = {ty}::from([{", ".join(map(str, b))}]); {show(f"{rep}.0")}')
                for st in range(rng.choice([3, 5, 8])):
                    f = rng.choice(flds)
                    w = f["e"] - f["s"]
                    if f["base"] == "bool":
                        v = rng.choice([0, 1])
                        arg = "true" if v else "false"
                    else:
                        cb = fs_common.CARRIER_BITS[f["carrier"]]
                        if f["base"] == "int":
                            v = rng.choice([0, -1, 1, rng.randint(-(1 << (cb - 1)), (1 << (cb - 1)) - 1), (1 << (w - 1)) - 1 if w > 1 else 0,
                                            -(1 << (w - 1))])
                        else:
                            v = rng.choice([0, (1 << cb) - 1, (1 << w) - 1, rng.randint(0, (1 << cb) - 1), 1 << (w - 1), rng.randint(0, (1 << w) - 1)])
                        arg = f"{v}{f['carrier']}" if v >= 0 else f"({v}{f['carrier']})"
                    main.append(f'  t.set_{f["name"]}({arg}); {show(f"{rep}.{st + 1}")}')
                    steps.append((f, v))
                main.append("}")
                plan[(cid, j, rep)] = {"case": c, "be": be, "msb0": msb0, "n": n, "fields": flds, "steps": steps, "start": b,
                                       "setters": setters, "set": fs["name"]}
    nsteps = 0
    shapes = set()
    if mods and not viol:
        l2.write_crate(ctx, "c02l2", mods, "fn main() {\n" + "\n".join(main) + "\n}\n")
        ok, out = l2.build(ctx, "c02l2", timeout=2400)
        if not ok:
            viol.append(({"syntax": None, "text": ""}, "the batch of accepted definitions does not compile", out[-2500:], None))
        else:
            rc, stdout, stderr = l2.run_bin(ctx, "c02l2")
            got = {}
            for line in stdout.splitlines():
                p = line.split(" ")
                got[(p[0], int(p[1]), p[2])] = (bytes.fromhex(p[3]), [int(x) for x in p[4:]])
            # Coq reference interpreter on the real MIR, one QSet per step with the bytes the compiled code had before it
            terms, order = [], {}
            bycid = collections.defaultdict(list)
            for (cid, j, rep), pl in plan.items():
                for st, (f, v) in enumerate(pl["steps"]):
                    before = got.get((cid, j, f"{rep}.{st}"))
                    if before is None:
                        continue
                    bycid[cid].append(((j, rep, st), f"QSet {j} {pl['setters'][f['name']]} ({v})%Z {coq_list(before[0])}"))
            for cid, qs in bycid.items():
                terms.append((cid, f"({gen_common.mir_term(res[cid])}) [" + "; ".join(q for _, q in qs) + "]"))
            pre = gen_common.PREAMBLE.format(mods="Layout FieldSetGen")
            model = vlib.coq_eval_strings(ctx, pre, [(cid, "l2_expected " + t) for cid, t in terms], shard_size=4, tag="c02l2")
            mexp = {}
            for cid, qs in bycid.items():
                parts = model.get(cid, "").split(";")
                for (key, _), e in zip(qs, parts):
                    mexp[(cid,) + key] = e
            for (cid, j, rep), pl in plan.items():
                c, be, msb0, flds = pl["case"], pl["be"], pl["msb0"], pl["fields"]
                prev = got.get((cid, j, f"{rep}.0"))
                if prev is None or list(prev[0]) != pl["start"]:
                    viol.append((c, f"{pl['set']}: From<[u8;N]> / Into<[u8;N]> is not the identity on the bytes", None if prev is None else prev[0].hex(), bytes(pl["start"]).hex()))
                    continue
                for st, (f, v) in enumerate(pl["steps"]):
                    cur = got.get((cid, j, f"{rep}.{st + 1}"))
                    if cur is None:
                        viol.append((c, f"{pl['set']}: no output after step {st + 1} (panic?)", stderr[-300:], None))
                        break
                    nsteps += 1
                    w = f["e"] - f["s"]
                    shapes.add((be, msb0, pl["n"], f["s"] % 8, f["e"] % 8, f["carrier"]))
                    where = f"{pl['set']}.set_{f['name']}({v}) [bits {f['s']}..{f['e']}, {'BE' if be else 'LE'}/{'MSB0' if msb0 else 'LSB0'}] on {prev[0].hex()}"
                    # (2) isolation
                    for k in range(8 * pl["n"]):
                        if not (f["s"] <= k < f["e"]) and getbit(be, msb0, prev[0], k) != getbit(be, msb0, cur[0], k):
                            viol.append((c, f"{where}: set-bit {k} outside the field changed", cur[0].hex(), prev[0].hex()))
                            break
                    # (3) other fields
                    for gi, g in enumerate(flds):
                        if g is not f and (g["e"] <= f["s"] or f["e"] <= g["s"]) and cur[1][gi] != prev[1][gi]:
                            viol.append((c, f"{where}: disjoint field {g['name']} now reads {cur[1][gi]}, read {prev[1][gi]} before", cur[0].hex(), prev[0].hex()))
                    # (1) read-back
                    fi = flds.index(f)
                    m = v % (1 << w)
                    want = m - (1 << w) if (f["base"] == "int" and m >= (1 << (w - 1))) else m
                    if cur[1][fi] != want:
                        cb = fs_common.CARRIER_BITS[f["carrier"]] if f["carrier"] else 8
                        if "D1" in known and f["base"] == "int" and w < cb and cur[1][fi] == m and m >= (1 << (w - 1)):
                            hist["known_D1_readbacks"] += 1
                        else:
                            viol.append((c, f"{where}: reads back {cur[1][fi]}, expected {want}", cur[0].hex(), None))
                    # model tie
                    e = mexp.get((cid, j, rep, st))
                    if e is None or not e or not e[0].isdigit() or bytes(int(x) for x in e.split(",")) != cur[0]:
                        viol.append((c, f"{where}: compiled bytes differ from FieldSetGen.setter_call on the real MIR", cur[0].hex(), e))
                    hist["bool" if f["base"] == "bool" else f["base"]] += 1
                    prev = cur
        l2.cleanup(ctx, "c02l2")
    if viol:
        viol.sort(key=lambda v: ("FieldSetGen" in v[1], len(v[0]["text"] or "")))
        c, what, got_, want = viol[0]
        vlib.violation(ctx, {"what": what, "failing_input": {"syntax": c["syntax"], "text": c["text"]},
                             "implementation": got_, "expected_or_before": want, "disagreements": len(viol)})
    return {"evaluations": nsteps, "definitions": len(cases), "distinct": len(shapes), "histogram": dict(hist),
            "rule": "registers with disjoint fields (gaps of unowned bits, bools on single bits, uint/int up to 128 bits, all four order "
                    "combinations from object setting or global default) compiled; two start buffers per field set, 3..8 setter calls "
                    "each on random fields with boundary-biased values; after every call: read-back = value reduced to the width, "
                    "every set-bit outside the declared range unchanged (physical position computed from the DEFINITION's orders), "
                    "every disjoint field reads as before, bytes = FieldSetGen.setter_call on the real MIR; "
                    "distinct = (byte order, bit order, bytes, start mod 8, end mod 8, carrier)"}
