"""C09 generator clause: which of the four dispatch bodies a GENERATED command accessor runs.
Real definitions (all command shapes: with/without fields x with/without declared sizes, nested, repeated, refs)
through the real transform_*; (L1) the accessor's type parameters read off the token stream and (L2) the arguments the
compiled accessor hands to a recording interface, against CmdShape.v evaluated on the real MIR and against the
property's wording computed from the abstract definition."""
import collections, random, re
import vlib, adef, l2
from checks import gen_common
from checks.c04 import method_maps, resolve, rust_call

SIZES = [1, 7, 8, 9, 12, 16, 24, 64, 128]


def gen_def(rng):
    cfg = {"command_address_type": rng.choice(["u8", "u16", "i16", "u32", "i64"]),
           "register_address_type": rng.choice([None, "u8"]),
           "default_byte_order": rng.choice(["LE", "BE"])}
    n = rng.choice([2, 3, 4, 5])
    cmds, counter = [], [0]

    def fields(size, tag):
        if size >= 3 and rng.random() < 0.3:
            # reserved bits at the top: the fields end BELOW the declared size; the transfer is still the declared size
            # (seed C09-6 sized the field set by its highest field end)
            top = rng.choice([1, size // 2, size - 1, max(1, size - 8)])
            return [adef.mk_field(f"r{tag}{counter[0]}", "uint", 0, min(top, 64))]
        if rng.random() < 0.5 or size < 2:
            return [adef.mk_field(f"v{tag}{counter[0]}", "uint" if size <= 64 else "uint", 0, min(size, 64))]
        cut = rng.randrange(1, size)
        lo_w, hi_w = min(cut, 64), min(size - cut, 64)
        return [adef.mk_field(f"a{tag}{counter[0]}", "uint", 0, lo_w), adef.mk_field(f"b{tag}{counter[0]}", "uint", cut, cut + hi_w)]

    for k in range(n):
        counter[0] += 1
        name = "C" + "abcdefgh"[k] + rng.choice(["", "x", "Op"])
        # per direction: (declared size?, fields?)
        def direction(tag):
            how = rng.choice(["none", "none", "fields", "fields", "size_only", "size_only"])
            if how == "none":
                return None, None
            size = rng.choice(SIZES)
            if how == "fields":
                return size, fields(size, tag)
            return size, None
        si, fi = direction("i")
        so, fo = direction("o")
        if fi and rng.random() < 0.3:
            # the reply mirrors the request field for field, but the two directions have their OWN declared sizes (one of
            # them with reserved bits above its highest field): each field set is built from its own size (seed C09-11
            # cloned FieldsIn when the two field lists were equal)
            import copy
            fo = copy.deepcopy(fi)
            top = max(f["end"] if f["end"] is not None else f["start"] + 1 for f in fi)
            so = rng.choice([x for x in SIZES + [top, top + 8, top + 16] if x >= top and x != si] or [top + 8])
        rep = None
        if rng.random() < 0.25:
            rep = {"count": rng.choice([1, 2, 3]), "stride": rng.choice([1, 2, 4])}
        elif k == n - 1 and cfg["command_address_type"] != "u8" and rng.random() < 0.5:
            # a repeated command whose far instances are the widest thing in the whole device: its LAST instance is
            # dispatched below, at the declared address (seed C09-9 left repeated commands out of the sizing of the
            # type the address arithmetic is done in)
            rep = {"count": rng.choice([2, 3, 4]), "stride": rng.choice([100, 300, 9000] + ([70000] if cfg["command_address_type"] in ("u32", "i64") else []))}
        if si is None and so is None and rng.random() < 0.4:
            c = adef.mk_command(name, 10 * k, basic=True)
        else:
            c = adef.mk_command(name, 10 * k, size_bits_in=si, size_bits_out=so, fields_in=fi, fields_out=fo, repeat=rep)
        cmds.append(c)
    objs = list(cmds)
    # refs to commands (method name = the ref's, field sets = the target's)
    for j in range(rng.choice([0, 1, 2])):
        t = rng.choice(cmds)
        ov = {"kind": "command", "address": 100 + 10 * j}
        if rng.random() < 0.5 and not t.get("basic"):
            # the ref's own REPEAT wins over the target's (seed C09-5 had it the other way round)
            ov["repeat"] = rng.choice([r for r in ({"count": c_, "stride": s_} for c_ in (1, 2, 3, 4) for s_ in (1, 2, 3))
                                       if r != t.get("repeat")])
        objs.append(adef.mk_ref(f"R{'pqr'[j]}", t["name"], ov))
    # put some of them into a block
    if rng.random() < 0.4 and len(objs) >= 2:
        k = rng.randrange(1, len(objs))
        inner, objs = objs[k:], objs[:k]
        objs.append(adef.mk_block("Bk", inner, address_offset=rng.choice([0, 1, 40])))
    rng.shuffle(objs)
    return {"config": cfg, "objects": objs}


def oracle_shapes(d):
    """The property's wording on the abstract definition: method (snake of the object's own name) ->
    (size_in, bytes_in, size_out, bytes_out); 0 / empty when the command has no fields in that direction."""
    cmds = {o["name"]: o for o, _ in adef.walk(d["objects"]) if o["kind"] == "command"}
    out = {}
    for o, _ in adef.walk(d["objects"]):
        t = o if o["kind"] == "command" else cmds.get(o["target"]) if (o["kind"] == "ref" and o["override"]["kind"] == "command") else None
        if t is None:
            continue
        si = (t.get("size_bits_in") or 0) if t.get("fields_in") else 0
        so = (t.get("size_bits_out") or 0) if t.get("fields_out") else 0
        out[o["name"]] = (si, (si + 7) // 8, so, (so + 7) // 8, bool(t.get("fields_in")), bool(t.get("fields_out")))
    return out


def paths(objs, prefix=""):
    for o in objs:
        n = re.sub(r"(?<=[a-z0-9])(?=[A-Z])", "_", o["name"]).lower()
        if o["kind"] == "block":
            yield from paths(o["objects"], prefix + n + "/")
        elif o["kind"] == "command" or (o["kind"] == "ref" and o["override"]["kind"] == "command"):
            yield prefix + n, o


def oracle_last_instance(d):
    """Per command / command ref (by name): (declared repeat count or None, address of its LAST instance) — "the
    command's address": enclosing block offset + own address (a ref's override) + (count - 1) * stride, where a ref's
    own REPEAT wins over its target's."""
    cmds = {o["name"]: o for o, _ in adef.walk(d["objects"]) if o["kind"] == "command"}
    out = {}

    def rec(objs, base):
        for o in objs:
            if o["kind"] == "block":
                rec(o["objects"], base + (o.get("address_offset") or 0))
            elif o["kind"] == "command":
                r = o.get("repeat")
                out[o["name"]] = (r["count"] if r else None, base + o["address"] + ((r["count"] - 1) * r["stride"] if r else 0))
            elif o["kind"] == "ref" and o["override"]["kind"] == "command":
                t, ov = cmds[o["target"]], o["override"]
                r = ov.get("repeat") or t.get("repeat")
                a = ov["address"] if ov.get("address") is not None else t["address"]
                out[o["name"]] = (r["count"] if r else None, base + a + ((r["count"] - 1) * r["stride"] if r else 0))
    rec(d["objects"], 0)
    return out


def run_gen_phase(ctx):
    exe, err = gen_common.build_gen_runner(ctx)
    if err:
        vlib.violation(ctx, {"broken": err}, no_input=True)
        return {"evaluations": 0, "distinct": 0}
    rng = random.Random(ctx.seed * 13 + 9)
    n = 60 if ctx.tier == "quick" else 400
    cases, defs = [], {}
    for i in range(n):
        d = gen_def(rng)
        syntax = rng.choice(["dsl", "dsl", "json", "yaml", "toml"])
        cid = f"k{i}"
        defs[cid] = d
        cases.append({"id": cid, "syntax": syntax, "text": adef.render(d, syntax, rng), "name": "Dev", "want": ["mir", "facts", "pretty"]})
    res = gen_common.run_gen(ctx, exe, cases, tag="c09")
    acc = [c for c in cases if res[c["id"]].get("status") == "ok" and res[c["id"]].get("parse_ok")]
    hist = collections.Counter(generated=len(cases), accepted=len(acc))
    terms = [(c["id"], gen_common.mir_term(res[c["id"]])) for c in acc]
    model = gen_common.eval_model(ctx, ["Reset", "CmdShape"], "command_shapes_result", terms, tag="c09shape")
    viol, shapes = [], set()
    mods, main, plan = {}, [], {}
    for c in cases:
        r = res[c["id"]]
        if r.get("status") in ("panic", "abort"):
            viol.append((c, "generator " + r["status"] + " on a command definition", r.get("message"), None))
        elif r.get("status") == "error":
            hist["rejected:" + gen_common.canon_status(r).split(":")[1]] += 1
    for c in acc:
        cid = c["id"]
        r = res[cid]
        d = defs[cid]
        m = model.get(cid, "")
        if m.startswith("<<COQ-ERROR"):
            viol.append((c, "model evaluation failed", m[:300], None))
            continue
        mshape = {}
        for part in [p for p in m.split(";") if p]:
            meth, fi, fo, ti, to = part.split(":")
            mshape[meth] = (fi, fo, int(ti), int(to))
        orc = oracle_shapes(d)
        blocks, root = method_maps(r["facts"])
        # L1: type parameters of every command accessor
        l1 = {}
        for b in r["facts"]["blocks"]:
            for mf in b["methods"]:
                if mf["kind"] == "command":
                    l1[mf["name"]] = (mf.get("field_set_in") or "()", mf.get("field_set_out") or "()")
        if l1 != {k: (v[0], v[1]) for k, v in mshape.items()}:
            viol.append((c, "the accessor type parameters (field set or `()`) differ from CmdShape.v on the real MIR", l1,
                         {k: (v[0], v[1]) for k, v in mshape.items()}))
            continue
        ats = "u8"
        for b in r["facts"]["blocks"]:
            for mf in b["methods"]:
                if mf["kind"] == "command" and mf.get("address_type"):
                    ats = mf["address_type"]
        rat = root.get("register_address_type") or "u8"
        mock = f"Mock::<{rat}, {ats}, u8>::new()"
        mods[cid] = r["pretty"]
        plan[cid] = {}
        last = oracle_last_instance(d)
        for key, o in paths(d["objects"]):
            steps = resolve(blocks, root, key)
            if steps is None:
                viol.append((c, f"command {key} has no accessor in the generated code", None, None))
                continue
            steps = [(mf, (mf["count"] - 1 if mf.get("indexed") else None)) for mf, idx in steps]
            leaf = steps[-1][0]
            want_count, want_addr = last[o["name"]]
            if bool(leaf.get("indexed")) != (want_count is not None):
                viol.append((c, f"{key}: accessor takes an index: {bool(leaf.get('indexed'))}, declared repeat count: {want_count}", None, None))
                continue
            if want_count is not None:
                if want_count == 0:
                    continue
                steps[-1] = (leaf, want_count - 1)     # the LAST declared instance, whatever count the generator emitted
            meth = leaf["name"]
            want_model = mshape.get(meth)
            si, ni, so, no, has_in, has_out = orc[o["name"]]
            if want_model is None or (want_model[2], want_model[3]) != (si, so) or (want_model[0] == "()") != (not has_in) or (want_model[1] == "()") != (not has_out):
                viol.append((c, f"{key}: CmdShape.v on the real MIR ({want_model}) differs from the property's wording on the definition "
                                f"{(si, so, has_in, has_out)}", None, None))
                continue
            plan[cid][key] = (si, ni, so, no, want_addr)
            shapes.add((has_in, has_out, si, so, o["kind"]))
            call = rust_call(steps)
            disp = ".dispatch(|_| ())" if leaf.get("field_set_in") else ".dispatch()"
            main.append(f'{{ let mut dev = {cid}::Dev::new({mock}); dev.interface.fill = vec![0xa5]; let r = catch(|| {{ let _ = {call}{disp}; }}); '
                        f'let n = dev.interface.log.len(); '
                        f'match r {{ Ok(()) => println!("{cid} {key} {{}} {{}}", n, dev.interface.log.last().map(|s| s.as_str()).unwrap_or("-")), '
                        f'Err(e) => println!("{cid} {key} {{}} PANIC {{}}", n, e) }} }}')
    nq = 0
    if mods and not viol:
        main_rs = "use mock::*;\nfn main() {\n" + "\n".join(main) + "\n}\n"
        l2.write_crate(ctx, "c09l2", mods, main_rs)
        ok, out = l2.build(ctx, "c09l2", timeout=2400)
        if not ok:
            viol.append(({"syntax": None, "text": ""}, "the batch of accepted command definitions does not compile", out[-2500:], None))
        else:
            rc, stdout, stderr = l2.run_bin(ctx, "c09l2")
            got = collections.defaultdict(dict)
            for line in stdout.splitlines():
                p = line.split(" ", 2)
                if len(p) == 3:
                    got[p[0]][p[1]] = p[2]
            byid = {c["id"]: c for c in acc}
            for cid, pl in plan.items():
                for key, want in pl.items():
                    nq += 1
                    g = got[cid].get(key)
                    if g is None:
                        viol.append((byid[cid], f"no output for {key}", None, want))
                        continue
                    ncalls, rest = g.split(" ", 1)
                    toks = rest.split(" ")
                    if rest.startswith("PANIC") or ncalls != "1" or toks[0] != "CMD" or len(toks) < 6:
                        viol.append((byid[cid], f"{key}: expected exactly one dispatch_command call", g, want))
                        continue
                    seen = (int(toks[2]), len(toks[3]) // 2, int(toks[4]), len(toks[5]) // 2)
                    zero_ok = set(toks[3]) <= {"0"} and set(toks[5]) <= {"0"}
                    want, want_addr = want[:4], want[4]
                    if int(toks[1]) != want_addr:
                        viol.append((byid[cid], f"{key}: the last declared instance was dispatched at address {toks[1]}, the command's address is {want_addr}", g, want_addr))
                    elif seen != want or not zero_ok:
                        viol.append((byid[cid], f"{key}: dispatch transferred (size_in, bytes_in, size_out, bytes_out) = {seen}"
                                                f"{'' if zero_ok else ' with non-zero initial buffers'}, declared {want}", g, want))
        l2.cleanup(ctx, "c09l2")
    if viol:
        viol.sort(key=lambda v: len(v[0]["text"]))
        c, what, got_, want = viol[0]
        vlib.violation(ctx, {"what": what, "failing_input": {"syntax": c["syntax"], "text": c["text"]},
                             "implementation": got_, "model_and_spec": want, "disagreements": len(viol),
                             "correspondence": "coq/theories/CmdShape.v command_shapes_result vs get_method/generate_method + compiled accessor"})
    return {"evaluations": len(cases), "accepted": len(acc), "dispatches_compiled_and_run": nq, "distinct": len(shapes),
            "histogram": dict(hist),
            "rule": "command-centred definitions (each direction: absent / declared size with fields / declared size WITHOUT fields; "
                    "basic commands; repeats; refs to commands; nesting in a block; 4 syntaxes) through the real transform_*; "
                    "accessor type parameters from the token stream and the dispatch_command arguments of the COMPILED accessor "
                    "(recording interface) vs CmdShape.v on the real MIR and vs the property's wording on the abstract definition; "
                    "distinct = (has in fields, has out fields, size_in, size_out, command|ref)"}
