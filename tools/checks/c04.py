"""C04 — every operation reaches the device at the mathematically defined address."""
import json, os, random, collections, re
import vlib, adef, l2, gendev
from checks import gen_common

RULE = ("random accepted definitions (nesting depth <= 2, repeats on blocks and objects with counts 1..4, signed strides, "
        "register/command refs with and without address/repeat/access overrides, all seven address types; block refs / WO "
        "fields / unsigned negative strides avoided: D9/D7/D8 do not compile) compiled with a recording mock; EVERY valid "
        "index tuple of every accessor path and the first invalid index per level is called (debug build, catch_unwind) and "
        "the address seen by the interface compared with (a) the Coq model of the emitted arithmetic evaluated on the real "
        "MIR and (b) the property's integer formula computed from the abstract definition; read_all_registers is run on every "
        "block instance: visited registers, order, reported and bus addresses; every operation and read_all_registers is also run "
        "through its *_async twin (self-waking mock futures, minimal executor) and must reach the device identically. "
        "distinct = distinct (path shape, index tuple)")


def method_maps(facts):
    blocks = {b["name"]: b for b in facts["blocks"]}
    root = [b for b in facts["blocks"] if b["root"]][0]
    return blocks, root


def snake(n):
    """method name of an object name as gendev issues them (PascalCase words: `Ra` -> ra, `RcQ` -> rc_q)"""
    return re.sub(r"(?<!^)(?=[A-Z])", "_", n).lower()


def resolve(blocks, root, key):
    """key 'ba[1]/rb[0]' -> (list of (method fact, index or None)), leaf method fact"""
    cur = root
    out = []
    for step in key.split("/"):
        m = re.fullmatch(r"([a-z_0-9]+)(?:\[(-?\d+)\])?", step)
        name, idx = m.group(1), (int(m.group(2)) if m.group(2) is not None else None)
        mf = [x for x in cur["methods"] if x["name"] == name]
        if not mf:
            return None
        mf = mf[0]
        out.append((mf, idx))
        if mf["kind"] == "block":
            cur = blocks[mf["block"]]
    return out


def rust_call(steps):
    s = "dev"
    for mf, idx in steps:
        s += f".{mf['name']}({idx if idx is not None else ''})"
    return s


def leaf_op(mf):
    k = mf["kind"]
    if k == "register":
        return ".read().map(|_| ())" if mf["access"] in ("RW", "RO") else ".write(|_| ()).map(|_| ())"
    if k == "command":
        return (".dispatch(|_| ())" if mf["field_set_in"] else ".dispatch()") + ".map(|_| ())"
    if k == "buffer":
        return ".read(&mut [0u8; 2]).map(|_| ())" if mf["access"] == "RO" else ".write(&[1u8, 2u8]).map(|_| ())"
    return None


def leaf_op_async(mf):
    k = mf["kind"]
    if k == "register":
        return ".read_async().await.map(|_| ())" if mf["access"] in ("RW", "RO") else ".write_async(|_| ()).await.map(|_| ())"
    if k == "command":
        return (".dispatch_async(|_| ())" if mf["field_set_in"] else ".dispatch_async()") + ".await.map(|_| ())"
    if k == "buffer":
        return ".read_async(&mut [0u8; 2]).await.map(|_| ())" if mf["access"] == "RO" else ".write_async(&[1u8, 2u8]).await.map(|_| ())"
    return None


def oracle_command_shapes(d):
    """C09 generator clause: key-independent map method name -> (size_in, nbytes_in, size_out, nbytes_out) as declared:
    size 0 / empty slice when the command has no input (output) fields."""
    cmds = {}
    for o, _ in adef.walk(d["objects"]):
        if o["kind"] == "command":
            cmds[o["name"]] = o
    out = {}
    for o, _ in adef.walk(d["objects"]):
        t = None
        if o["kind"] == "command":
            t = o
        elif o["kind"] == "ref" and o["override"]["kind"] == "command":
            t = cmds.get(o["target"])
        if t is None:
            continue
        si = (t.get("size_bits_in") or 0) if t.get("fields_in") else 0
        so = (t.get("size_bits_out") or 0) if t.get("fields_out") else 0
        out[snake(o["name"])] = (si, (si + 7) // 8, so, (so + 7) // 8)
    return out


def oracle_addresses(d):
    """property formula from the abstract definition: key -> address (valid index tuples only)"""
    out = {}
    regs = {}
    for o, _ in adef.walk(d["objects"]):
        regs[o["name"]] = o

    def eff(o):
        if o["kind"] != "ref":
            return o.get("address", o.get("address_offset") or 0) or 0, o.get("repeat")
        t = regs[o["target"]]
        ov = o["override"]
        if ov["kind"] == "block":
            a = ov.get("address_offset")
            if a is None:
                a = t.get("address_offset") or 0
            return a, ov.get("repeat") or t.get("repeat")
        a = ov.get("address")
        if a is None:
            a = t.get("address")
        r = ov.get("repeat") or t.get("repeat")
        return a, r

    def rec(objs, prefix, base):
        for o in objs:
            a, r = eff(o)
            if o["kind"] == "block":
                a = o.get("address_offset") or 0
            n = snake(o["name"])
            idxs = [None] if not r else list(range(r["count"]))
            # a block ref leads to its TARGET's objects, at the ref's own offset / repeat
            inner = o["objects"] if o["kind"] == "block" else \
                (regs[o["target"]]["objects"] if o["kind"] == "ref" and o["override"]["kind"] == "block" else None)
            for i in idxs:
                key = prefix + n + (f"[{i}]" if i is not None else "")
                addr = base + a + (i * r["stride"] if i is not None else 0)
                if inner is not None:
                    rec(inner, key + "/", addr)
                else:
                    out[key] = addr
    rec(d["objects"], "", 0)
    return out


def add_boundary_object(rng, d):
    """Make the largest (or smallest) reachable address land exactly on / next to an integer-width boundary, reached
    only as a SUM (offset + address + index*stride), so that the internal address type is exercised at its edge."""
    cfg = d["config"]
    kind = rng.choice(["register", "command"])
    at = cfg.get(kind + "_address_type") or "u8"
    lo, hi = adef.INT_RANGE[at]
    cands = [b + delta for b in (127, 128, 255, 256, 32767, 32768, 65535, 65536, 2 ** 31 - 1, 2 ** 31, 2 ** 32 - 1)
             for delta in (0,) if lo <= b + delta <= hi]
    negs = [-b for b in (128, 129, 32768, 32769, 2 ** 31) if lo <= -b <= hi]
    if not cands:
        return
    target = rng.choice(cands + negs) if negs and rng.random() < 0.3 else rng.choice(cands)
    count = rng.choice([2, 3, 4])
    stride = rng.choice([1, 2, 16, 64]) * (1 if target > 0 else -1)
    off = rng.choice([0, 8, 100]) * (1 if target > 0 else -1)
    if abs(off) + abs(stride) * (count - 1) >= abs(target):
        off = 0
        if abs(stride) * (count - 1) >= abs(target):
            stride = 1 if target > 0 else -1
    addr = target - off - stride * (count - 1)
    if kind == "register":
        # negative strides on readable registers with unsigned types do not compile (D8)
        leaf = adef.mk_register("Rzz", addr, 8, [adef.mk_field("val", "uint", 0, 8)], repeat={"count": count, "stride": stride},
                                access="WO" if (stride < 0 and at.startswith("u")) else None)
    else:
        leaf = adef.mk_command("Rzz", addr, repeat={"count": count, "stride": stride})
    if off:
        d["objects"].append(adef.mk_block("Bzz", [leaf], address_offset=off))
    else:
        d["objects"].append(leaf)


def add_descending_in_block(rng, d):
    """A repeated object with a NEGATIVE stride inside an offset block whose own (block-relative) address is smaller
    than (count-1)*|stride|: every bus address base + ADDRESS - i*|stride| is valid, but only when the sum is taken
    left to right; ADDRESS - i*|stride| on its own is negative."""
    kind = rng.choice(["register", "command"])
    count = rng.choice([2, 3, 4])
    stride = rng.choice([1, 2, 5])
    span = (count - 1) * stride
    a = rng.randrange(0, span)                 # < span
    off = span - a + rng.choice([0, 1, 7, 40])  # lowest bus address = off + a - span >= 0
    rep = {"count": count, "stride": -stride}
    if kind == "register":
        leaf = adef.mk_register("Rzx", a, 8, [adef.mk_field("val", "uint", 0, 8)], repeat=rep, access=rng.choice([None, "WO", "RO"]))
    else:
        leaf = adef.mk_command("Rzx", a, repeat=rep)
    d["objects"].append(adef.mk_block("Bzx", [leaf], address_offset=off))


def in_known_overflow_class(key, pl_def):
    """D3: the path goes through a repeated block at a non-zero index (the min/max walk ignores block repeats for
    children, so IT/AT may be too small) — C13's known findings."""
    blocks = {}
    for o, _ in adef.walk(pl_def["objects"]):
        if o["kind"] == "block":
            blocks[snake(o["name"])] = o
    for step in key.split("/")[:-1]:
        m = re.fullmatch(r"([a-z_0-9]+)\[(\d+)\]", step)
        if m and int(m.group(2)) > 0 and m.group(1) in blocks:
            return True
    return False


def run(ctx):
    info = vlib.coq_gate(ctx)
    exe, err = gen_common.build_gen_runner(ctx)
    if err:
        vlib.violation(ctx, {"broken": err}, no_input=True)
        vlib.write_evidence(ctx, info, {"evaluations": 0, "distinct_nontrivial": 0, "rule": RULE, "samples": []})
        return
    known = {k["id"]: k for k in vlib.load_known_findings("C04")}
    rng = random.Random(ctx.seed + 4)
    want = 24 if ctx.tier == "quick" else 200
    prof = gendev.Profile(conversions=False, enums=False, reset_values=False, wide=False, max_objects=5, max_depth=2, neg_stride=True, case_twins=True,
                          block_refs=True)
    cases, defs = [], {}
    tries = 0
    while len(cases) < want * 3 and tries < want * 8:
        tries += 1
        d = gendev.gen_device(rng, prof)
        if not d["objects"]:
            continue
        if rng.random() < 0.5:
            add_boundary_object(rng, d)
        if rng.random() < 0.3:
            add_descending_in_block(rng, d)
        if rng.random() < 0.5:
            # declaration order is free (a ref may precede its target, refs and plain objects interleave): the order of
            # the accessors and of read_all_registers is the declaration order
            def shuffle(objs):
                rng.shuffle(objs)
                for o in objs:
                    if o["kind"] == "block":
                        shuffle(o["objects"])
            shuffle(d["objects"])
        cid = f"m{len(cases)}"
        defs[cid] = d
        syntax = rng.choice(["dsl", "dsl", "json"])
        cases.append({"id": cid, "syntax": syntax, "text": adef.render(d, syntax, rng), "name": "Dev", "want": ["mir", "facts", "pretty"]})
    # directed: pairs of same-kind objects whose names differ only in letter case, the lower-case one declared first, and
    # refs to the LATER one that leave address and/or repeat to it (a ref resolves to the object of exactly that name —
    # seed C04-8 compared names ignoring case).  First in the list so that they are always among the compiled ones.
    twins = []
    for k in range(3 if ctx.tier == "quick" else 10):
        a1, a2 = rng.randrange(0, 40), rng.randrange(60, 100)
        fs = lambda: [adef.mk_field("va", "uint", 0, 8, form="excl")]
        objs = [adef.mk_register("Twq", a1, 8, fs(), repeat={"count": 2, "stride": 3}),
                adef.mk_register("TwQ", a2, 16, fs(), byte_order="LE"),
                adef.mk_ref("Rkeep", "TwQ", {"kind": "register", "allow_address_overlap": True}),
                adef.mk_ref("Rmove", "TwQ", {"kind": "register", "address": 120 + k}),
                adef.mk_command("Cwq", a1, basic=True), adef.mk_command("CwQ", a2, size_bits_in=16, byte_order="LE",
                                                                          fields_in=[adef.mk_field("vb", "uint", 0, 16, form="excl")]),
                adef.mk_ref("Ckeep", "CwQ", {"kind": "command", "allow_address_overlap": True})]
        objs[1]["allow_address_overlap"] = True
        objs[5]["allow_address_overlap"] = True
        if k % 2:
            objs = [adef.mk_block("Bt", objs[:2] + objs[4:6], address_offset=200)] + objs[2:4] + objs[6:]
        # block refs that leave ADDRESS_OFFSET (and REPEAT) to their target, declared inside ANOTHER block: the ref sits at
        # host base + the TARGET's offset (seed C04-9 put it at offset 0)
        tgt = adef.mk_block("Tgt", [adef.mk_register("Ia", 1, 8, fs()), adef.mk_command("Ic", 2, basic=True)], address_offset=1000 + 8 * k,
                            repeat={"count": 2, "stride": 16} if k % 3 == 0 else None)
        # register / command refs with their OWN repeat to a target that is repeated differently (seed C09-5: the target's won)
        objs += [adef.mk_command("Crep", 300, basic=False, repeat={"count": 3, "stride": 2}),
                 adef.mk_ref("Crr", "Crep", {"kind": "command", "address": 400, "repeat": {"count": 2, "stride": 5}}),
                 adef.mk_register("Rrep", 320, 8, fs(), repeat={"count": 3, "stride": 2}),
                 adef.mk_ref("Rrr", "Rrep", {"kind": "register", "address": 420, "repeat": {"count": 2, "stride": -5}})]
        objs += [tgt, adef.mk_block("Hosta", [adef.mk_ref("Alias", "Tgt", {"kind": "block"})], address_offset=3000),
                 adef.mk_block("Hostb", [adef.mk_ref("Aliasrep", "Tgt", {"kind": "block", "repeat": {"count": 2, "stride": 100}})],
                               address_offset=5000)]
        d = {"config": adef.mk_config(register_address_type="u16", command_address_type="u16"), "objects": objs}
        cid = f"t{k}"
        defs[cid] = d
        twins.append({"id": cid, "syntax": "dsl" if k % 3 else "json", "text": None, "name": "Dev", "want": ["mir", "facts", "pretty"]})
        twins[-1]["text"] = adef.render(d, twins[-1]["syntax"], rng)
    # a block ref that pushes its target's contents beyond the address type: rejected on a sound tree (and then not used
    # here); if it is accepted, the accessor's final `as <address type>` truncates the mathematically defined address
    # (seed C04-10 stopped range-checking what lies behind a block ref)
    for k, (at, off) in enumerate((("u8", 0xF8), ("u8", 250), ("i8", 120), ("u16", 0xFFF8))):
        d = {"config": adef.mk_config(register_address_type=at, command_address_type=at), "objects": [
            adef.mk_block("Bank", [adef.mk_register("Status", 0x10, 8, [adef.mk_field("va", "uint", 0, 8, form="excl")]),
                                   adef.mk_command("Go", 0x11, basic=True)], address_offset=0),
            adef.mk_ref("Highbank", "Bank", {"kind": "block", "address_offset": off})]}
        cid = f"u{k}"
        defs[cid] = d
        twins.append({"id": cid, "syntax": "dsl", "text": adef.render(d, "dsl", rng), "name": "Dev", "want": ["mir", "facts", "pretty"]})
    cases = twins + cases
    res = gen_common.run_gen(ctx, exe, cases)
    acc = [c for c in cases if res[c["id"]].get("status") == "ok" and res[c["id"]].get("parse_ok")][:want + len(twins)]
    hist = collections.Counter()
    hist["generated"] = len(cases)
    hist["accepted_used"] = len(acc)
    # ---- model
    terms = []
    for c in acc:
        r = res[c["id"]]
        it = r["facts"]["blocks"][0]["base_address_type"]
        terms.append((c["id"], f'"{it}"%string ({gen_common.mir_term(r)})'))
    pre = gen_common.PREAMBLE.format(mods="AddrPath Addr04")
    model = vlib.coq_eval_strings(ctx, pre, [(i, "c04_result " + t) for i, t in terms], shard_size=4, tag="c04")
    # ---- Rust driver
    mods, main = {}, []
    plan = {}
    viol = []
    for c in acc:
        cid = c["id"]
        r = res[cid]
        m = model.get(cid, "")
        if "|" not in m or m.startswith("<<COQ-ERROR"):
            viol.append((c, "model evaluation failed", m[:300], None))
            continue
        paths_s, ra_s = m.split("|", 1)
        exp = dict(kv.split("=", 1) for kv in paths_s.split(";") if kv)
        ra = dict(kv[3:].split("=", 1) for kv in ra_s.split(";") if kv)
        blocks, root = method_maps(r["facts"])
        ats = {"register": root.get("register_address_type") or "u8", "command": "u8", "buffer": "u8"}
        for b in r["facts"]["blocks"]:
            for mf in b["methods"]:
                if mf["kind"] in ats and mf.get("address_type"):
                    ats[mf["kind"]] = mf["address_type"]
        mock = f"Mock::<{ats['register']}, {ats['command']}, {ats['buffer']}>::new()"
        mods[cid] = r["pretty"]
        plan[cid] = {"exp": exp, "ra": ra, "def": defs[cid]}
        for key in exp:
            steps = resolve(blocks, root, key)
            if steps is None:
                viol.append((c, f"model path {key} has no accessor in the generated code", None, None))
                continue
            leaf = steps[-1][0]
            op = leaf_op(leaf)
            call = rust_call(steps)
            body = f"let _ = {call}{op};" if op else f"let _ = {call};"
            main.append(f'{{ let mut dev = {cid}::Dev::new({mock}); let r = catch(|| {{ {body} }}); '
                        f'let n = dev.interface.log.len(); '
                        f'match r {{ Ok(()) => println!("{cid} {key} {{}} {{}}", n, dev.interface.log.last().map(|s| s.as_str()).unwrap_or("-")), '
                        f'Err(e) => println!("{cid} {key} {{}} PANIC {{}}", n, e) }} }}')
            opa = leaf_op_async(leaf)
            if opa:
                # the *_async twin of the same operation must reach the same address (same log line)
                main.append(f'{{ let mut dev = {cid}::Dev::new({mock}); let r = catch(|| {{ block_on(async {{ let _ = {call}{opa}; }}) }}); '
                            f'let n = dev.interface.log.len(); '
                            f'match r {{ Ok(()) => println!("{cid} {key}@async {{}} {{}}", n, dev.interface.log.last().map(|s| s.as_str()).unwrap_or("-")), '
                            f'Err(e) => println!("{cid} {key}@async {{}} PANIC {{}}", n, e) }} }}')
        for bkey in ra:
            steps = resolve(blocks, root, bkey.rstrip("/")) if bkey else []
            if steps is None:
                continue
            call = rust_call(steps) if bkey else "dev"
            main.append(f'{{ let mut dev = {cid}::Dev::new({mock}); let mut items: Vec<String> = Vec::new(); '
                        f'let r = catch(|| {{ let _ = {call}.read_all_registers(|a, n, _v| items.push(format!("{{}}@{{}}", n, Into::<i128>::into(a)))); }}); '
                        f'let bus: Vec<String> = dev.interface.log.iter().map(|l| l.split(\' \').nth(1).unwrap_or("?").to_string()).collect(); '
                        f'println!("{cid} RA:{bkey} {{}} {{}} {{}}", if r.is_ok() {{ "ok" }} else {{ "PANIC" }}, items.join(","), bus.join(",")); }}')
            main.append(f'{{ let mut dev = {cid}::Dev::new({mock}); let mut items: Vec<String> = Vec::new(); '
                        f'let r = catch(|| {{ block_on(async {{ let _ = {call}.read_all_registers_async(|a, n, _v| items.push(format!("{{}}@{{}}", n, Into::<i128>::into(a)))).await; }}) }}); '
                        f'let bus: Vec<String> = dev.interface.log.iter().map(|l| l.split(\' \').nth(1).unwrap_or("?").to_string()).collect(); '
                        f'println!("{cid} RA:{bkey}@async {{}} {{}} {{}}", if r.is_ok() {{ "ok" }} else {{ "PANIC" }}, items.join(","), bus.join(",")); }}')
    main_rs = "use mock::*;\nfn main() {\n" + "\n".join(main) + "\n}\n"
    nq = 0
    shapes = set()
    d2 = 0
    if mods:
        l2.write_crate(ctx, "c04l2", mods, main_rs)
        ok, out = l2.build(ctx, "c04l2", timeout=2400)
        if not ok:
            viol.append(({"syntax": None, "text": ""}, "the batch of accepted definitions (outside D7/D8/D9) does not compile", out[-2000:], None))
        else:
            rc, stdout, stderr = l2.run_bin(ctx, "c04l2")
            got = collections.defaultdict(dict)
            for line in stdout.splitlines():
                p = line.split(" ", 2)
                if len(p) == 3:
                    got[p[0]][p[1]] = p[2]
            byid = {c["id"]: c for c in acc}
            for cid, pl in plan.items():
                c = byid[cid]
                oracle = oracle_addresses(pl["def"])
                shapes_c = oracle_command_shapes(pl["def"])
                for key, want_v in pl["exp"].items():
                    nq += 1
                    g = got[cid].get(key)
                    shapes.add((re.sub(r"\d+", "#", key), tuple(re.findall(r"\[(-?\d+)\]", key))))
                    if g is None:
                        viol.append((c, f"no output for path {key}", None, want_v))
                        continue
                    ga = got[cid].get(key + "@async")
                    if ga is not None:
                        hist["async_twins"] += 1
                        if (ga.split(" ")[:3] if "PANIC" not in ga else ["PANIC" in ga]) != (g.split(" ")[:3] if "PANIC" not in g else ["PANIC" in g]):
                            viol.append((c, f"{key}: the *_async operation does not reach the device like the blocking one (calls, kind, address)", ga, g))
                    n, rest = g.split(" ", 1)
                    if want_v == "ASSERT":
                        if not (rest.startswith("PANIC") and "index <" in rest and n == "0"):
                            viol.append((c, f"{key}: an index >= the repeat count must panic before the interface is touched", g, want_v))
                    elif want_v == "OVERFLOW":
                        hist["overflow_paths"] += 1
                        if not (rest.startswith("PANIC") and "overflow" in rest):
                            viol.append((c, f"{key}: model predicts an arithmetic overflow panic (debug build)", g, want_v))
                        elif key in oracle and not (in_known_overflow_class(key, pl["def"]) and "D3" in known):
                            viol.append((c, f"{key}: valid indices, mathematically defined address {oracle[key]}, but the generated address "
                                            f"arithmetic overflows its internal type (debug panic before the interface is touched)", g, str(oracle[key])))
                    else:
                        if rest.startswith("PANIC"):
                            viol.append((c, f"{key}: valid indices but the accessor panicked", g, want_v))
                            continue
                        toks = rest.split(" ")
                        addr = toks[1] if len(toks) > 1 else "?"
                        # the interface receives `address as AT`
                        leaf_kind = toks[0]
                        if n != "1":
                            viol.append((c, f"{key}: expected exactly one interface call", g, want_v))
                        if key in oracle and str(oracle[key]) != want_v:
                            viol.append((c, f"{key}: the model of the emitted arithmetic ({want_v}) differs from the property's formula ({oracle[key]})", g, want_v))
                        if leaf_kind == "CMD" and len(toks) >= 6:
                            mname = re.sub(r"\[.*", "", key.split("/")[-1])
                            if mname in shapes_c:
                                si, ni, so, no = shapes_c[mname]
                                seen = (int(toks[2]), len(toks[3]) // 2, int(toks[4]), len(toks[5]) // 2)
                                if seen != (si, ni, so, no):
                                    viol.append((c, f"{key}: dispatch transferred (size_in, bytes_in, size_out, bytes_out) = {seen}, declared {(si, ni, so, no)}", g, want_v))
                                hist["command_dispatches"] += 1
                        if addr != want_v:
                            viol.append((c, f"{key}: interface saw address {addr}, mathematically defined address is {want_v}", g, want_v))
                for bkey, want_items in pl["ra"].items():
                    nq += 1
                    g = got[cid].get("RA:" + bkey)
                    if g is None:
                        viol.append((c, f"no read_all output for block {bkey}", None, want_items))
                        continue
                    ga = got[cid].get("RA:" + bkey + "@async")
                    if ga is not None and ga != g:
                        viol.append((c, f"read_all_registers_async of block '{bkey}' differs from read_all_registers (status, items, bus addresses)", ga, g))
                    parts = g.split(" ")
                    status, items, bus = parts[0], (parts[1] if len(parts) > 1 else ""), (parts[2] if len(parts) > 2 else "")
                    if status != "ok":
                        # overflow inside a nested accessor: C13's domain; the model flags the same paths
                        hist["read_all_panic"] += 1
                        continue
                    if items != want_items:
                        viol.append((c, f"read_all_registers of block '{bkey}': visited registers / order / reported addresses differ", items, want_items))
                        continue
                    names = [x.split("@")[0] for x in items.split(",") if x]
                    reported = [x.split("@")[1] for x in items.split(",") if x]
                    busl = [x for x in bus.split(",") if x]
                    exp_bus = [pl["exp"].get(bkey + nm) for nm in names]
                    if busl != exp_bus:
                        viol.append((c, f"read_all_registers of block '{bkey}': bus addresses differ from the accessors' addresses", bus, exp_bus))
                    elif reported != busl:
                        if "D2" in known:
                            d2 += 1
                        else:
                            viol.append((c, f"read_all_registers of block '{bkey}' reports {reported} but used {busl} on the bus", items, bus))
        l2.cleanup(ctx, "c04l2")
    if d2:
        vlib.known_finding(ctx, known["D2"], f"read_all_registers reported block-relative addresses on {d2} non-root block instances (bus address = base + reported)")
    if viol:
        viol.sort(key=lambda v: len(v[0].get("text") or ""))
        c, what, got_v, want_v = viol[0]
        vlib.violation(ctx, {"what": what, "failing_input": {"syntax": c.get("syntax"), "text": c.get("text")},
                             "implementation": got_v, "model_and_spec": want_v, "disagreements": len(viol)})
    elif not info["ok"]:
        vlib.violation(ctx, {"broken": info["reason"], "theorem": "props/C04.v"}, no_input=True)
    samples = []
    for cid, pl in list(plan.items())[:2]:
        c = [x for x in acc if x["id"] == cid][0]
        samples.append({"syntax": c["syntax"], "text": c["text"][:800], "paths": dict(list(pl["exp"].items())[:8]),
                        "read_all": dict(list(pl["ra"].items())[:3])})
    vlib.write_evidence(ctx, info, {"evaluations": nq, "distinct_nontrivial": len(shapes), "rule": RULE, "samples": samples,
                                    "input_distribution": dict(hist), "definitions_compiled": len(mods),
                                    "known_D2_block_instances": d2, "disagreements": len(viol)})


def replay(ctx, path):
    run(ctx)
