"""C05 — register read/write/modify follow the documented protocol, sync and async alike."""
import random
import vlib
from checks import proto_common as pc

THEOREMS = "C05_write, C05_write_with_zero, C05_read, C05_modify, C05_async_equiv, C05_async_equiv_seq (props/C05.v)"
RULE = ("exhaustive at the bound: every operation sequence over {write, write_with_zero, read, modify} up to length "
        "%d x every subset of failing interface-call positions x blocking and *_async entry points x (async) every "
        "Pending count in {0,1,2} per await; field-set sizes {1,7,8,9,12,16,24,64,128} bits: all sizes for sequences "
        "up to length %d, one size per history (rotating) above; reset value, closure (xor/overwrite pattern, returns "
        "the bytes it was shown), bytes stored by the interface (full, short, long, none) and error codes random from "
        "the seed; real RegisterOperation::* on a scripted (Async)RegisterInterface + hand-rolled executor vs extracted "
        "Coq model (events, results and poll counts compared); distinct = (entry point, size, operation sequence, "
        "event kinds with byte lengths, result kind per operation) classes; every case makes >= 1 interface call")


def run(ctx):
    info = vlib.coq_gate(ctx)
    rng = random.Random(ctx.seed)
    maxlen, full = (2, 2) if ctx.tier == "quick" else (3, 2)
    lines = pc.reg_cases(rng, maxlen, full)
    stats, diffs, err = pc.correspondence(ctx, lines, "R")
    pc.report(ctx, info, stats, diffs, err, "C05", THEOREMS, RULE % (maxlen, full),
              "register.rs disagrees with the proven protocol model (interface calls, their arguments, or the value returned)",
              extra_assumptions=["not covered here: which reset constructor the generator passes for a ref that overrides the reset "
                                 "value (C05_ref_reset / C08)"])


def replay(ctx, path):
    if not pc.replay(ctx, path, "C05"):
        run(ctx)
