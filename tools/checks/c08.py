"""C08 — Reset values reach the wire exactly as declared.

L1: register sizes 1..128 x {LE,BE} x {LSB0,MSB0} x {integer, array} x values {0, all-ones-in-range, PRNG, each single
in-range bit, each single out-of-range bit (array: up to the byte boundary; integer: up to bit 127), wrong array
lengths, PRNG + one out-of-range bit}; expected-accepts batched (150 registers per definition), expected-rejects in
single-register definitions; refs with / without reset override (target before / after the ref, nested in blocks);
DSL and the three manifest syntaxes.  Every definition goes through the REAL generator (gen_runner: mir + facts), the
Coq model Reset.reset_result is evaluated on the REAL MIR, and a python transcription of the property text gives a third,
independent expectation.  L2: accepted batches compiled once; `write(|_| ())` on every accessor against the recording
mock and `FieldSet::new()` / `new_as_*()` through `Into<[u8; N]>`, compared with the model's constructors."""
import collections, json, os, random, re, shutil, time
import vlib, adef, l2
from checks import gen_common

RULE = ("sizes 1..128 x {LE,BE} x {LSB0,MSB0} x {integer,array} x {0, all ones in range, PRNG in range, single in-range "
        "bits, single out-of-range bits (array: to the byte boundary, integer: to bit 127), wrong array lengths, PRNG + one "
        "out-of-range bit}; thorough enumerates EVERY single bit of every size, quick samples boundary bits; expected-accepts "
        "batched 150 registers per definition, expected-rejects one definition each; refs with/without override, target "
        "before/after, nested in blocks; DSL/JSON/YAML/TOML. Compared per definition: accept/reject, error kind + object "
        "name + size, byte literals of new()/new_as_*(), [u8;N], new_zero length, constructor handed to each accessor -- "
        "REAL generator vs Coq model (Reset.reset_result evaluated on the real MIR) vs python transcription of the property "
        "text. L2: compiled batches, bytes seen by the mock on write(|_|()) and Into<[u8;N]> of new()/new_as_*(). "
        "distinct_nontrivial = distinct (size, byte order, bit order, form, value) tuples, not counting the all-zero value "
        "of the right length and refs without override")

BATCH = 150
LIMITS = {"dsl": 2 ** 128 - 1, "json": 2 ** 64 - 1, "yaml": 2 ** 63 - 1, "toml": 2 ** 63 - 1}


# ------------------------------------------------------------------ python transcription of the property text

def blen(size):
    return (size + 7) // 8


def bit_place(bo, bito, L, k):
    """(byte index, bit index) of set-bit k in C01's numbering (book/src/memory.md)"""
    return (k // 8 if bo == "LE" else L - 1 - k // 8), (k % 8 if bito == "LSB0" else 7 - k % 8)


def arr_from_bits(bo, bito, L, bits):
    a = [0] * L
    for k in bits:
        by, bi = bit_place(bo, bito, L, k)
        a[by] |= 1 << bi
    return a


def int_from_bits(bito, bits):
    v = 0
    for k in bits:
        v |= 1 << (8 * (k // 8) + (k % 8 if bito == "LSB0" else 7 - k % 8))
    return v


def spec_value(value, bo, bito, size):
    """-> ("accept", bytes) | ("reject", why)   for a declared value (int or list) on a register"""
    L = blen(size)
    if isinstance(value, list):
        if len(value) != L:
            return ("reject", "reset_len")
        arr = value
    else:
        if value >= 1 << (8 * L):
            return ("reject", "reset_too_big")
        arr = list(value.to_bytes(L, "little"))
        if bo == "BE":
            arr = arr[::-1]
    for k in range(size, 8 * L):
        by, bi = bit_place(bo, bito, L, k)
        if (arr[by] >> bi) & 1:
            return ("reject", "reset_too_big")
    return ("accept", arr)


def snake(name):
    out = ""
    for i, ch in enumerate(name):
        if ch.isupper() and i > 0 and name[i - 1].islower():
            out += "_"
        out += ch.lower()
    return out


def spec_definition(d):
    """Expected canonical outcome of a definition produced by this module (python, from the property text)."""
    default_bo = d["config"].get("default_byte_order")
    default_bito = d["config"].get("default_bit_order") or "LSB0"
    objs = [o for o, _ in adef.walk(d["objects"])]
    regs = {o["name"]: o for o in objs if o["kind"] == "register"}

    def orders(r):
        return (r["byte_order"] or default_bo or "LE"), (r["bit_order"] or default_bito)

    for o in objs:          # pre-order: first rejection wins
        if o["kind"] == "register" and o["reset_value"] is not None:
            bo, bito = orders(o)
            s = spec_value(o["reset_value"], bo, bito, o["size_bits"])
            if s[0] == "reject":
                return ("error", s[1], "register", o["name"])
        if o["kind"] == "ref" and o["override"]["kind"] == "register":
            t = regs.get(o["target"])
            if t is None:
                return ("error", "ref_unknown", "Register", o["name"])
            rv = o["override"].get("reset_value")
            if rv is not None:
                bo, bito = orders(t)
                s = spec_value(rv, bo, bito, t["size_bits"])
                if s[0] == "reject":
                    return ("error", s[1], "ref register", o["name"])
    sets, accs = [], []
    for o in objs:
        if o["kind"] == "register":
            bo, bito = orders(o)
            L = blen(o["size_bits"])
            new = [0] * L if o["reset_value"] is None else spec_value(o["reset_value"], bo, bito, o["size_bits"])[1]
            new_as = []
            for x in objs:
                if x["kind"] == "ref" and x["target"] == o["name"] and x["override"].get("reset_value") is not None:
                    new_as.append(("new_as_" + snake(x["name"]),
                                   tuple(spec_value(x["override"]["reset_value"], bo, bito, o["size_bits"])[1])))
            sets.append((o["name"], o["size_bits"], L, tuple(new), tuple(sorted(new_as))))
            accs.append((snake(o["name"]), o["name"], "new"))
        elif o["kind"] == "ref" and o["override"]["kind"] == "register":
            fn = "new" if o["override"].get("reset_value") is None else "new_as_" + snake(o["name"])
            accs.append((snake(o["name"]), o["target"], fn))
    return ("ok", tuple(sorted(sets)), tuple(sorted(accs)))


# ------------------------------------------------------------------ canonical forms of the three observations

def canon_model(s):
    if s is None:
        return ("no-model",)
    if s == "panic":
        return ("panic",)
    if s.startswith("error:"):
        return ("error", s[6:])
    if s.startswith("ok;"):
        body, accs = s[3:].split("#", 1)
        sets = []
        for part in [p for p in body.split(";") if p]:
            m = re.match(r"^(\w+):(-?\d+):(-?\d+):\[([\d,]*)\]:(.*)$", part)
            new_as = tuple(sorted((fn, tuple(int(x) for x in bs.split(",") if x))
                                  for fn, bs in re.findall(r"(\w+)=\[([\d,]*)\]", m.group(5))))
            sets.append((m.group(1), int(m.group(2)), int(m.group(3)), tuple(int(x) for x in m.group(4).split(",") if x), new_as))
        al = tuple(sorted(tuple(a.split(":")) for a in accs.split(";") if a))
        return ("ok", tuple(sorted(sets)), al)
    return ("model-error", s[:300])


def canon_impl(r):
    st = gen_common.canon_status(r)
    if st != "ok":
        return ("error", st[6:]) if st.startswith("error:") else (st,)
    f = r.get("facts")
    if not f:
        return ("ok-no-facts", str(r.get("parse_error"))[:200])
    sets = []
    for fs in f["field_sets"]:
        nb = fs["size_bytes"] if fs["size_bytes"] == fs["new_zero_len"] else "%s/%s" % (fs["size_bytes"], fs["new_zero_len"])
        if fs.get("new") is None or any(x.get("bytes") is None for x in fs["new_as"]):
            # the constructor body is not a byte array the extractor can read: not "ok with these bytes"
            return ("ok-unreadable-reset-constructor", fs["name"])
        new_as = tuple(sorted((x["name"], tuple(x["bytes"])) for x in fs["new_as"]))
        sets.append((fs["name"], fs["size_bits"], nb, tuple(fs["new"]), new_as))
    accs = [(m["name"], m["field_set"], m["reset_fn"]) for b in f["blocks"] for m in b["methods"] if m["kind"] == "register"]
    return ("ok", tuple(sorted(sets)), tuple(sorted(accs)))


def spec_agrees(spec, obs):
    """does an observation satisfy the python expectation? (error kind `reset_len` vs `reset_too_big` is not part of
    the property; the subject name and the fact of rejection are)"""
    if spec[0] == "ok":
        return obs == spec
    if obs[0] != "error":
        return False
    kind, _, args = obs[1].partition(":")
    a = args.split("|")
    if spec[1] == "ref_unknown":
        return kind == "ref_unknown" and a[:2] == [spec[2], spec[3]]
    return kind in ("reset_len", "reset_too_big") and a[:2] == [spec[2], spec[3]]


# ------------------------------------------------------------------ case generation

def value_cases(rng, size, bo, bito, form, exhaustive):
    """-> list of (class label, value, expect 'accept'|'reject')"""
    L = blen(size)
    top = 8 * L if form == "arr" else 128

    def mk(bits):
        return arr_from_bits(bo, bito, L, bits) if form == "arr" else int_from_bits(bito, bits)

    prng = [k for k in range(size) if rng.random() < 0.5]
    out = [("zero", mk([]), "accept"), ("ones", mk(range(size)), "accept"), ("prng", mk(prng), "accept")]
    inr = list(range(size))
    outr = list(range(size, top))
    if not exhaustive:
        inr = sorted(set([0, size - 1, rng.randrange(size)]))
        pick = [size, top - 1, 8 * L - 1, 8 * L] + ([rng.randrange(size, top)] if top > size else [])
        outr = sorted(set(k for k in pick if size <= k < top))
    out += [("in%d" % k if exhaustive else "in-bit", mk([k]), "accept") for k in inr]
    out += [("out-bit", mk([k]), "reject") for k in outr]
    if outr:
        out.append(("prng+out", mk(prng + [rng.choice(outr)]), "reject"))
    if form == "arr":
        out.append(("len+1", [0] * (L + 1), "reject"))
        if L > 1 or exhaustive:
            out.append(("len-1", [0] * (L - 1), "reject"))
        if exhaustive:
            out.append(("len+1-ones", [255] * (L + 1), "reject"))
    return out


def reg_name(i):
    return "R" + "".join(chr(97 + (i // 26 ** j) % 26) for j in (2, 1, 0))


def ref_name(i):
    return "X" + "".join(chr(97 + (i // 26 ** j) % 26) for j in (1, 0))


def pick_syntax(rng, value):
    s = rng.choice(["dsl", "dsl", "dsl", "json", "yaml", "toml"])
    if not isinstance(value, list) and value > LIMITS[s]:
        return "dsl"
    return s


def mk_reg(rng, name, addr, c, default_bo):
    """register for case c; the byte order is given on the register, or left to the global default / to the
    'LE for sizes <= 8' rule when that yields the wanted order"""
    bo = c["bo"]
    own = bo
    if default_bo == bo and rng.random() < 0.5:
        own = None
    if default_bo is None and bo == "LE" and c["size"] <= 8 and rng.random() < 0.5:
        own = None
    bito = c["bito"] if (c["bito"] == "MSB0" or rng.random() < 0.5) else None
    return adef.mk_register(name, addr, c["size"], [], byte_order=own, bit_order=bito, reset_value=c["value"])


def build_register_defs(rng, cases):
    """-> list of definitions {"adef","syntax","cases":[...],"kind"}"""
    defs = []
    accept = collections.defaultdict(list)
    for c in cases:
        syn = pick_syntax(rng, c["value"])
        if c["expect"] == "accept":
            accept[syn].append(c)
        else:
            dbo = rng.choice([None, "LE", "BE"]) if (c["size"] <= 8 and c["bo"] == "LE") else rng.choice([c["bo"], c["bo"], "LE", "BE"])
            cfg = adef.mk_config(register_address_type="u16", default_byte_order=dbo)
            c["name"] = "Rej"
            objs = [mk_reg(rng, "Rej", 7, c, dbo)]
            # a decoy declared BEFORE the rejected register: same declared value, same orders, same byte length, but
            # every bit of the last byte inside the size — it accepts the value (seed C08-5 memoised the conversion on
            # exactly these four things and skipped the range check on a hit)
            wide = 8 * blen(c["size"])
            if wide > c["size"] and rng.random() < 0.6 and spec_value(c["value"], c["bo"], c["bito"], wide)[0] == "accept":
                dec = dict(c, size=wide, name="Dec")
                objs.insert(0, mk_reg(rng, "Dec", 3, dec, dbo))
                objs[0]["byte_order"], objs[0]["bit_order"] = objs[1]["byte_order"], objs[1]["bit_order"]
                if objs[0]["byte_order"] is None and dbo is None and wide > 8:
                    objs[0]["byte_order"] = objs[1]["byte_order"] = c["bo"]
            defs.append({"adef": {"config": cfg, "objects": objs}, "syntax": syn, "cases": [c], "kind": "reject"})
    for syn, cl in accept.items():
        rng.shuffle(cl)
        for i in range(0, len(cl), BATCH):
            chunk = cl[i:i + BATCH]
            dbo = rng.choice([None, "LE", "BE"])
            cfg = adef.mk_config(register_address_type="u16", default_byte_order=dbo)
            objs = []
            for j, c in enumerate(chunk):
                c["name"] = reg_name(j)
                objs.append(mk_reg(rng, c["name"], j, c, dbo))
            # some batches nest a tail of the registers in a block
            if len(objs) > 4 and rng.random() < 0.3:
                k = rng.randrange(1, len(objs))
                objs = objs[:k] + [adef.mk_block("Blk", objs[k:], address_offset=1000)]
            defs.append({"adef": {"config": cfg, "objects": objs}, "syntax": syn, "cases": chunk, "kind": "batch"})
    return defs


def build_ref_defs(rng, n_defs, exhaustive):
    """definitions with refs: targets before/after the ref, nested in blocks, with/without override"""
    defs = []
    for di in range(n_defs):
        dbo = rng.choice([None, "LE", "BE"])
        cfg = adef.mk_config(register_address_type="u16", default_byte_order=dbo)
        syn = rng.choice(["dsl", "dsl", "json", "yaml", "toml"])
        ntarget = rng.choice([1, 2, 3, 4])
        targets, refs, cases = [], [], []
        reject_planned = rng.random() < 0.35
        for t in range(ntarget):
            size = rng.choice([1, 5, 7, 8, 9, 12, 15, 16, 17, 24, 31, 32, 33, 63, 64, 65, 100, 127, 128]) if not exhaustive else rng.randrange(1, 129)
            bo = rng.choice(["LE", "BE"]) if (size > 8 or dbo) else "LE"
            bito = rng.choice(["LSB0", "MSB0"])
            L = blen(size)
            own_form = rng.choice([None, "int", "arr"])
            own_bits = [k for k in range(size) if rng.random() < 0.5]
            own = None if own_form is None else (arr_from_bits(bo, bito, L, own_bits) if own_form == "arr" else int_from_bits(bito, own_bits))
            if own is not None and not isinstance(own, list) and own > LIMITS[syn]:
                own = arr_from_bits(bo, bito, L, own_bits)
            c = {"size": size, "bo": bo, "bito": bito, "value": own}
            tname = "T" + "abcd"[t] + "x"
            targets.append(mk_reg(rng, tname, 10 + t, c, dbo))
            for _ in range(rng.choice([1, 1, 2, 3])):
                rname = ref_name(len(refs))
                form = rng.choice(["none", "int", "arr"])
                rv = None
                expect = "accept"
                if form != "none":
                    bits = [k for k in range(size) if rng.random() < 0.5]
                    top = 8 * L if form == "arr" else 128
                    if reject_planned and not any(x["expect"] == "reject" for x in cases) and top > size:
                        bits = bits + [rng.randrange(size, top)]
                        expect = "reject"
                    rv = arr_from_bits(bo, bito, L, bits) if form == "arr" else int_from_bits(bito, bits)
                    if reject_planned and not any(x["expect"] == "reject" for x in cases) and expect == "accept" and form == "arr":
                        rv = rv + [0]
                        expect = "reject"
                    if not isinstance(rv, list) and rv > LIMITS[syn]:
                        if expect == "reject":
                            syn = "dsl"
                        else:
                            rv = arr_from_bits(bo, bito, L, bits)
                ov = {"kind": "register", "address": 100 + len(refs), "reset_value": rv}
                refs.append(adef.mk_ref(rname, tname, ov))
                cases.append({"size": size, "bo": bo, "bito": bito, "form": "ref-" + form, "value": rv, "expect": expect,
                              "cls": "ref-" + form + ("-reject" if expect == "reject" else ""), "name": rname})
        # placement: refs before / after targets, refs and/or targets inside blocks
        place = rng.choice(["refs-first", "targets-first", "refs-in-block", "targets-in-block", "both-nested", "mixed"])
        if place == "refs-first":
            objs = refs + targets
        elif place == "targets-first":
            objs = targets + refs
        elif place == "refs-in-block":
            objs = [adef.mk_block("Ba", refs, address_offset=1000)] + targets
        elif place == "targets-in-block":
            objs = refs + [adef.mk_block("Ba", targets, address_offset=1000)]
        elif place == "both-nested":
            objs = [adef.mk_block("Ba", [adef.mk_block("Bb", refs, address_offset=2000)] + targets[1:], address_offset=1000), targets[0]]
        else:
            objs = targets + refs
            rng.shuffle(objs)
        for c in cases:
            c["place"] = place
        defs.append({"adef": {"config": cfg, "objects": objs}, "syntax": syn, "cases": cases, "kind": "refs"})
    return defs


def d14_defs():
    """finding D14: a ref with a reset override whose target is missing / not a register"""
    cfg = adef.mk_config(register_address_type="u8", command_address_type="u8")
    out = []
    for label, objs in [
        ("missing", [adef.mk_ref("Xaa", "Nope", {"kind": "register", "address": 5, "reset_value": 1})]),
        ("missing-array-nested", [adef.mk_block("Ba", [adef.mk_ref("Xaa", "Nope", {"kind": "register", "address": 5, "reset_value": [1]})], address_offset=10)]),
        ("command-target", [adef.mk_command("Cmd", 3, basic=True), adef.mk_ref("Xaa", "Cmd", {"kind": "register", "address": 5, "reset_value": 1})]),
        ("self", [adef.mk_ref("Xaa", "Xaa", {"kind": "register", "address": 5, "reset_value": 1})]),
    ]:
        out.append({"adef": {"config": cfg, "objects": objs}, "syntax": "dsl", "kind": "d14", "label": label,
                    "cases": [{"cls": "d14-" + label, "form": "ref-int", "expect": "reject", "name": "Xaa", "size": 0, "bo": "LE", "bito": "LSB0", "value": 1}]})
    # control: the same dangling ref WITHOUT override is a proper error already
    out.append({"adef": {"config": cfg, "objects": [adef.mk_ref("Xaa", "Nope", {"kind": "register", "address": 5, "reset_value": None})]},
                "syntax": "dsl", "kind": "refs", "label": "dangling-no-override",
                "cases": [{"cls": "dangling-no-override", "form": "ref-none", "expect": "reject", "name": "Xaa", "size": 0, "bo": "LE", "bito": "LSB0", "value": None}]})
    return out


# ------------------------------------------------------------------ running

def d14_open():
    p = os.path.join(vlib.VERIF, "KNOWN_FINDINGS.jsonl")
    entries = []
    if os.path.exists(p):
        for line in open(p):
            try:
                e = json.loads(line)
            except json.JSONDecodeError:
                continue
            if e.get("id") == "D14" and e.get("property") in ("C08", "C14"):
                entries.append(e)
    return any(e.get("status") == "open" for e in entries), (entries[0] if entries else {"id": "D14"})


def get_exe(ctx):
    """gen_runner built against /repo's working tree; C08_GEN_RUNNER=<exe> (with VERIF_REPO=<copy>) lets the mutation
    tests run this same check against a private mutated copy of the repository without touching /repo"""
    o = os.environ.get("C08_GEN_RUNNER")
    if o:
        ctx.log("using gen_runner override", o, "repo", vlib.REPO)
        return o, None
    exe, err = gen_common.build_gen_runner(ctx)
    if err:
        return exe, err
    # private copy: other checks rebuild the shared binary concurrently (possibly against a mutated /repo)
    mine = os.path.join(ctx.work, "gen_runner_c08")
    shutil.copy2(exe, mine)
    return mine, None


def evaluate(ctx, exe, defs, model_fn, tag):
    """runs impl + model + spec on every definition; fills d["impl"], d["model"], d["spec"], d["res"]"""
    rng = random.Random(ctx.seed ^ 0x5EED)
    cases = []
    for i, d in enumerate(defs):
        d["id"] = f"{tag}{i}"
        if "text" not in d:
            d["text"] = adef.render(d["adef"], d["syntax"], rng)
        cases.append({"id": d["id"], "syntax": d["syntax"], "text": d["text"], "name": "Dev", "want": list(d.get("want", ["mir", "facts"]))})
    t0 = time.time()
    res = gen_common.run_gen(ctx, exe, cases, tag=tag)
    t1 = time.time()
    terms = []
    for d in defs:
        r = res[d["id"]]
        d["res"] = r
        try:
            t = gen_common.mir_term(r)
        except Exception as ex:  # noqa
            t = None
            d["mir_error"] = str(ex)[:200]
        if t is not None:
            terms.append((d["id"], t))
    t2 = time.time()
    # big (batched) definitions get small shards so that they spread over the coqc workers
    pre = gen_common.PREAMBLE.format(mods="Layout Reset")
    small = [(i, f"{model_fn} ({t})") for i, t in terms if len(t) <= 20000]
    big = [(i, f"{model_fn} ({t})") for i, t in terms if len(t) > 20000]
    model = vlib.coq_eval_strings(ctx, pre, big, shard_size=3, tag=tag + "modelb")
    model.update(vlib.coq_eval_strings(ctx, pre, small, shard_size=150, tag=tag + "model"))
    ctx.log(f"{len(defs)} definitions: generator {t1 - t0:.1f} s, MIR->Coq terms {t2 - t1:.1f} s, model (coqc vm_compute) {time.time() - t2:.1f} s")
    for d in defs:
        d["impl"] = canon_impl(d["res"])
        d["model"] = canon_model(model.get(d["id"]))
        d["spec"] = spec_definition(d["adef"]) if d.get("adef") else None
    return defs


def describe(d):
    return {"syntax": d["syntax"], "text": d["text"], "adef": d.get("adef"),
            "cases": [{k: c.get(k) for k in ("name", "size", "bo", "bito", "form", "cls", "value", "expect", "place")} for c in d["cases"][:6]]}


def short(x, n=1500):
    s = json.dumps(x)
    return s if len(s) <= n else s[:n] + "..."


def split_batch(rng, d):
    """single-register definitions for every member of a disagreeing batch (to get a small replay)"""
    out = []
    for c in d["cases"]:
        dbo = c["bo"]
        cfg = adef.mk_config(register_address_type="u16", default_byte_order=dbo)
        c2 = dict(c)
        c2["name"] = "Rej"
        out.append({"adef": {"config": cfg, "objects": [mk_reg(rng, "Rej", 7, c2, dbo)]}, "syntax": d["syntax"], "cases": [c2], "kind": "single"})
    return out


def twin_defs(rng, n):
    """Same-named registers behind mutually exclusive cfgs (`cfg(all())` holds in every build, `cfg(any())` in none) with
    DIFFERENT reset values, in both declaration orders: the build gets the reset value of the twin that exists in it.
    Compiled only (L2); the expectation is the python reading of the property on the definition without the absent twin.
    (A ref to the pair is only generated when the existing twin comes first: a ref takes the FIRST definition, D23.)"""
    out = []
    for i in range(n):
        size = rng.choice([8, 16, 24, 32, 40, 64])       # whole bytes: every value below 2^size is a legal reset value
        bo = rng.choice(["LE", "BE"])
        bito = rng.choice([None, "LSB0", "MSB0"])
        vals = rng.sample(range(1, 1 << min(size, 30)), 2)
        if rng.random() < 0.3:
            vals[1] = None                                  # only one twin has a reset value
            if rng.random() < 0.5:
                vals.reverse()
        act_first = i % 2 == 0
        sfx = "abcdefghijklmnop"[i % 16]
        mk = lambda v, cfg, addr: adef.mk_register(f"Tw{sfx}", addr, size, [adef.mk_field("va", "uint", 0, min(size, 8), form="excl")],
                                                   byte_order=bo, bit_order=bito, reset_value=v, cfg=cfg)
        act, ina = mk(vals[0], "all()", 10), mk(vals[1], "any()", 20)
        extra = [adef.mk_register(f"Plain{sfx}", 40, 16, [], byte_order=bo, reset_value=rng.randrange(1, 1 << 16))]
        if act_first:
            extra.append(adef.mk_ref(f"Twref{sfx}", f"Tw{sfx}", {"kind": "register", "address": 60}))
        # a ref with its OWN reset value in both orders: its constructor new_as_<ref> belongs to every twin's field set
        # (seed C08-9 handed the ref overrides to the first twin only; the twins have the same size and orders, so which of
        # them the override is converted for does not matter)
        extra.append(adef.mk_ref(f"Twov{sfx}", f"Tw{sfx}", {"kind": "register", "address": 70, "reset_value": rng.randrange(1, 1 << min(size, 30))}))
        # indexed accessors start from the same constructor as plain ones: a ref with its own reset value AND its own REPEAT,
        # and a ref with its own reset value to a REPEATED register (seed C08-11 gave every indexed accessor the target's new())
        extra.append(adef.mk_ref(f"Plrep{sfx}", f"Plain{sfx}", {"kind": "register", "address": 90, "reset_value": rng.randrange(1, 1 << 16),
                                                                 "repeat": {"count": 2, "stride": 4}}))
        extra.append(adef.mk_register(f"Many{sfx}", 120, 16, [], byte_order=bo, reset_value=rng.randrange(1, 1 << 16), repeat={"count": 3, "stride": 2}))
        extra.append(adef.mk_ref(f"Manyov{sfx}", f"Many{sfx}", {"kind": "register", "address": 140, "reset_value": rng.randrange(1, 1 << 16)}))
        cfg = adef.mk_config(register_address_type="u16")
        full = {"config": cfg, "objects": ([act, ina] if act_first else [ina, act]) + extra}
        only = {"config": cfg, "objects": [dict(act, cfg=None)] + extra}
        out.append({"id": f"tw{i}", "syntax": "dsl", "text": adef.render(full, "dsl"), "adef": only, "model": spec_definition(only),
                    "cases": [], "kind": "twins"})
    return out


def l2_main(mods):
    """mods: list of (modname, adef).  Driver: write(|_|()) on every register / ref accessor, and the constructor bytes."""
    body = ["use mock::*;", "fn main() {"]
    for m, d in mods:
        body.append("    {")
        body.append(f"        let mut dev = {m}::Dev::new(Mock::<u16, u8, u8>::new());")

        regs_by_name = {x["name"]: x for x, _ in adef.walk(d["objects"]) if x["kind"] == "register"}

        def idx(o):
            """"0" for an indexed accessor (own repeat, or a ref that overrides / inherits one), "" otherwise"""
            if o["kind"] == "ref":
                rep = o["override"].get("repeat") or (regs_by_name.get(o["target"]) or {}).get("repeat")
            else:
                rep = o.get("repeat")
            return "0" if rep else ""

        def emit(objs, path):
            for o in objs:
                if o["kind"] == "block":
                    emit(o["objects"], path + f".{snake(o['name'])}()")
                elif o["kind"] in ("register", "ref"):
                    body.append(f"        dev{path}.{snake(o['name'])}({idx(o)}).write(|_| ()).unwrap();")
        emit(d["objects"], "")
        body.append(f"        for l in &dev.interface.log {{ println!(\"{m} {{}}\", l); }}")
        # the same through write_async: the reset value reaches the wire on the async path too (seed C08-6 started
        # write_async from zeros)
        body.append("        dev.interface.log.clear();")

        def emit_async(objs, path):
            for o in objs:
                if o["kind"] == "block":
                    emit_async(o["objects"], path + f".{snake(o['name'])}()")
                elif o["kind"] in ("register", "ref"):
                    body.append(f"        block_on(async {{ dev{path}.{snake(o['name'])}({idx(o)}).write_async(|_| ()).await.unwrap(); }});")
        emit_async(d["objects"], "")
        body.append(f"        for l in &dev.interface.log {{ println!(\"{m}@async {{}}\", l); }}")
        for o, _ in adef.walk(d["objects"]):
            if o["kind"] == "register":
                n = blen(o["size_bits"])
                body.append(f"        {{ let b: [u8; {n}] = {m}::field_sets::{o['name']}::new().into(); println!(\"{m} NEW {o['name']} new {{}}\", hex(&b)); }}")
                body.append(f"        {{ let b: [u8; {n}] = {m}::field_sets::{o['name']}::new_zero().into(); println!(\"{m} NEW {o['name']} new_zero {{}}\", hex(&b)); }}")
                for x, _ in adef.walk(d["objects"]):
                    if x["kind"] == "ref" and x["target"] == o["name"] and x["override"].get("reset_value") is not None:
                        fn = "new_as_" + snake(x["name"])
                        body.append(f"        {{ let b: [u8; {n}] = {m}::field_sets::{o['name']}::{fn}().into(); println!(\"{m} NEW {o['name']} {fn} {{}}\", hex(&b)); }}")
        body.append("    }")
    body.append("}")
    return "\n".join(body)


def l2_expected(m, d, model):
    """expected stdout lines from the MODEL's constructors (+ addresses / sizes from the definition)"""
    sets = {s[0]: s for s in model[1]}
    accs = {a[0]: a for a in model[2]}
    hexs = lambda bs: "".join("%02x" % b for b in bs)
    wr, new = [], []

    def ctor_bytes(fs, fn):
        s = sets[fs]
        return s[3] if fn == "new" else dict(s[4])[fn]

    def walk(objs, off):
        for o in objs:
            if o["kind"] == "block":
                walk(o["objects"], off + (o["address_offset"] or 0))
            elif o["kind"] == "register":
                a = accs[snake(o["name"])]
                wr.append(f"{m} WR {off + o['address']} {o['size_bits']} {hexs(ctor_bytes(a[1], a[2]))}")
            elif o["kind"] == "ref":
                a = accs[snake(o["name"])]
                wr.append(f"{m} WR {off + o['override']['address']} {sets[a[1]][1]} {hexs(ctor_bytes(a[1], a[2]))}")
    walk(d["objects"], 0)
    for o, _ in adef.walk(d["objects"]):
        if o["kind"] == "register":
            s = sets[o["name"]]
            new.append(f"{m} NEW {o['name']} new {hexs(s[3])}")
            new.append(f"{m} NEW {o['name']} new_zero {'00' * s[2]}")
            for x, _ in adef.walk(d["objects"]):
                if x["kind"] == "ref" and x["target"] == o["name"] and x["override"].get("reset_value") is not None:
                    fn = "new_as_" + snake(x["name"])
                    new.append(f"{m} NEW {o['name']} {fn} {hexs(dict(s[4])[fn])}")
    return wr + [l.replace(m + " WR", m + "@async WR", 1) for l in wr] + new


def run_l2(ctx, exe, l2defs, hist):
    """-> (number of compared lines, list of diffs)"""
    mods, texts, expected = [], {}, []
    for i, d in enumerate(l2defs):
        m = f"d{i}"
        r = gen_common.run_gen(ctx, exe, [{"id": m, "syntax": d["syntax"], "text": d["text"], "name": "Dev", "want": ["pretty"]}], tag="l2gen")[m]
        if r.get("status") != "ok" or not r.get("pretty"):
            return 0, [("l2-bytes", {"generate": [d["id"], r.get("status"), (r.get("message") or "")[:300]],
                                     "note": "the generator accepted this definition in L1 but not when asked for the pretty output",
                                     "definition": describe(d)})]
        texts[m] = r["pretty"]
        mods.append((m, d["adef"]))
        expected += l2_expected(m, d["adef"], d["model"])
    name = "c08_l2"
    l2.write_crate(ctx, name, texts, l2_main(mods))
    ok, out = l2.build(ctx, name)
    if not ok:
        return 0, [("l2-build", out[-1500:])]
    rc, so, se = l2.run_bin(ctx, name)
    got = [l for l in so.splitlines() if l.strip()]
    diffs = []
    if rc != 0:
        diffs.append(("l2-run", rc, se[-800:]))
    if sorted(got) != sorted(expected):
        gs, es = collections.Counter(got), collections.Counter(expected)
        miss = sorted((es - gs).elements())
        extra = sorted((gs - es).elements())
        bad_mods = sorted(set(l.split(" ", 1)[0].split("@")[0] for l in miss + extra), key=lambda m: len(l2defs[int(m[1:])]["text"]))
        mod = bad_mods[0]                      # the smallest definition that shows a difference
        d = l2defs[int(mod[1:])]
        diffs.append(("l2-bytes", {"expected_by_model_not_seen": [l for l in miss if (l.startswith(mod + " ") or l.startswith(mod + "@async "))][:5],
                                   "seen_not_expected": [l for l in extra if (l.startswith(mod + " ") or l.startswith(mod + "@async "))][:5],
                                   "modules_with_differences": len(set(l.split(" ", 1)[0] for l in miss + extra)),
                                   "definition": describe(d)}))
    hist["l2_modules"] = len(mods)
    hist["l2_lines"] = len(expected)
    if not diffs:
        l2.cleanup(ctx, name)
    return len(expected), diffs


def run(ctx):
    info = vlib.coq_gate(ctx)
    exe, err = get_exe(ctx)
    if err or not info["ok"]:
        vlib.violation(ctx, {"broken": err or info["reason"], "theorem": "props/C08.v"}, no_input=True)
        vlib.write_evidence(ctx, info, {"evaluations": 0, "distinct_nontrivial": 0, "rule": RULE, "samples": []})
        return
    rng = random.Random(ctx.seed)
    exhaustive = ctx.tier == "thorough"
    is_open, d14_entry = d14_open()
    model_fn = "reset_result" if is_open else "reset_result_refs_first"

    cases = []
    for size in range(1, 129):
        for bo in ("LE", "BE"):
            for bito in ("LSB0", "MSB0"):
                for form in ("int", "arr"):
                    for cls, value, expect in value_cases(rng, size, bo, bito, form, exhaustive):
                        cases.append({"size": size, "bo": bo, "bito": bito, "form": form, "cls": cls, "value": value, "expect": expect})
    defs = build_register_defs(rng, cases) + build_ref_defs(rng, 1500 if exhaustive else 300, exhaustive) + d14_defs()
    ctx.log(f"{len(cases)} register cases in {len(defs)} definitions (model: {model_fn})")
    evaluate(ctx, exe, defs, model_fn, "c")

    hist = collections.Counter()
    distinct = set()
    problems = []     # (severity, def, what)
    for d in defs:
        for c in d["cases"]:
            hist["form_" + str(c.get("form"))] += 1
            hist["order_%s_%s" % (c.get("bo"), c.get("bito"))] += 1
            hist["class_" + re.sub(r"\d+", "", c["cls"])] += 1
            hist["expect_" + c["expect"]] += 1
            if c["cls"] != "zero" and c.get("form") != "ref-none":     # non-trivial: some declared, non-default content
                distinct.add((c.get("size"), c.get("bo"), c.get("bito"), c.get("form"), json.dumps(c.get("value"))))
        hist["syntax_" + d["syntax"]] += 1
        hist["defs_" + d["kind"]] += 1
        hist["impl_" + d["impl"][0]] += 1
        if d["kind"] == "d14":
            if d["impl"][0] == "panic":
                if is_open:
                    vlib.known_finding(ctx, d14_entry, f"dangling ref with reset override ({d['label']}) panics the generator instead of a compile_error")
                else:
                    problems.append(("impl", d, "generator panic on a dangling ref with reset override (D14 is not listed open)"))
            elif not spec_agrees(d["spec"], d["impl"]):
                problems.append(("impl", d, "dangling ref with reset override: neither the recorded panic nor the ref_unknown error"))
            elif is_open:
                ctx.log(f"note: D14 is listed open but '{d['label']}' is rejected properly")
            if d["impl"][0] != "panic" and d["impl"] != d["model"]:
                problems.append(("model", d, "model disagrees on a D14 probe"))
            continue
        if d["impl"] != d["model"]:
            problems.append(("impl" if not spec_agrees(d["spec"], d["impl"]) else "model", d, "generator and Coq model disagree"))
        elif not spec_agrees(d["spec"], d["impl"]):
            problems.append(("impl", d, "generator (and model) disagree with the property text"))

    # ---- L2: a few accepted batches + ref definitions, compiled once
    l2_count, l2_diffs = 0, []
    if not problems:
        ok_batches = [d for d in defs if d["kind"] == "batch" and d["impl"][0] == "ok"]
        ok_refs = [d for d in defs if d["kind"] == "refs" and d["impl"][0] == "ok" and any(c["form"] != "ref-none" for c in d["cases"])]
        by_syn = {}
        for d in ok_batches:
            by_syn.setdefault(d["syntax"], d)
        pick = list(by_syn.values()) + ok_batches[:(10 if exhaustive else 1)] + ok_refs[:(60 if exhaustive else 12)]
        seen, l2defs = set(), []
        for d in pick:
            if d["id"] not in seen:
                seen.add(d["id"])
                l2defs.append(d)
        l2defs += twin_defs(rng, 12 if exhaustive else 6)      # (seed C05-8: reset values keyed by the bare name)
        t0 = time.time()
        l2_count, l2_diffs = run_l2(ctx, exe, l2defs, hist)
        hist["l2_seconds"] = round(time.time() - t0, 1)
        ctx.log(f"L2: {hist['l2_modules']} modules, {l2_count} lines compared, {len(l2_diffs)} diffs")

    # ---- reporting
    n_eval = sum(len(d["cases"]) for d in defs)
    if problems:
        problems.sort(key=lambda p: (p[0] != "impl", len(p[1]["text"])))
        sev, d, what = problems[0]
        if d["kind"] == "batch":      # shrink: find the member(s) responsible
            singles = evaluate(ctx, exe, split_batch(random.Random(ctx.seed), d), model_fn, "s")
            bad = [s for s in singles if s["impl"] != s["model"] or not spec_agrees(s["spec"], s["impl"])]
            if bad:
                d = bad[0]
                sev = "impl" if not spec_agrees(d["spec"], d["impl"]) else "model"
        rep = {"what": what, "failing_input": describe(d), "implementation": short(d["impl"]), "model": short(d["model"]),
               "spec_from_property_text": short(d["spec"]), "message": (d["res"].get("message") or "")[:500],
               "disagreeing_definitions": len(problems), "model_fn": model_fn,
               "blame": "implementation violates the property text" if sev == "impl" else
                        "implementation satisfies the python reading of the property text; the Coq model does not match the code (correspondence broken)"}
        vlib.violation(ctx, rep, no_input=(sev != "impl"))
    elif l2_diffs:
        fi = {"note": "see crate"}
        for x in l2_diffs:
            if x[0] == "l2-bytes":
                fi = dict(x[1]["definition"])
                fi["l2"] = True
        vlib.violation(ctx, {"what": "compiled output: bytes written by write(|_|()) / held by new()/new_as_*() differ from the model's constructors",
                             "l2": [x if x[0] != "l2-bytes" else ("l2-bytes", {k: v for k, v in x[1].items() if k != "definition"}) for x in l2_diffs[:3]],
                             "crate": l2.crate_dir(ctx, "c08_l2"), "failing_input": fi, "model_fn": model_fn})
    acc = hist["impl_ok"] / max(1, len(defs))
    samples = []
    for d in (defs[0], defs[len(defs) // 2], [x for x in defs if x["kind"] == "refs"][0]):
        samples.append({"syntax": d["syntax"], "text": d["text"][:600], "implementation": short(d["impl"], 400), "model": short(d["model"], 400)})
    vlib.write_evidence(ctx, info, {
        "evaluations": n_eval, "definitions": len(defs), "distinct_nontrivial": len(distinct), "rule": RULE,
        "exhaustive": bool(exhaustive),
        "exhaustive_note": ("every size 1..128 x 4 orders x 2 forms: every single in-range bit, every single out-of-range bit "
                            "(array: to the byte boundary; integer: to bit 127), zero, all-ones, PRNG, wrong lengths" if exhaustive else
                            "quick tier samples boundary bits per size; all 128 sizes x 4 orders x 2 forms are visited"),
        "samples": samples, "input_distribution": dict(hist), "accepted_definition_ratio": round(acc, 3),
        "disagreements": len(problems), "l2_lines_compared": l2_count, "l2_disagreements": len(l2_diffs),
        "model_function": model_fn, "d14_listed_open": is_open})


def replay(ctx, path):
    rep = json.load(open(path))
    fi = rep.get("failing_input") or {}
    if not fi.get("text"):
        run(ctx)
        return
    exe, err = get_exe(ctx)
    if err:
        vlib.violation(ctx, {"broken": err}, no_input=True)
        return
    d = {"adef": fi.get("adef"), "syntax": fi["syntax"], "text": fi["text"], "cases": fi.get("cases") or [], "kind": "replay"}
    evaluate(ctx, exe, [d], rep.get("model_fn") or "reset_result", "r")
    ctx.log("impl :", short(d["impl"], 600))
    ctx.log("model:", short(d["model"], 600))
    ctx.log("spec :", short(d["spec"], 600))
    if d["impl"] != d["model"] or (d["spec"] is not None and not spec_agrees(d["spec"], d["impl"])):
        vlib.violation(ctx, {"failing_input": fi, "implementation": short(d["impl"]), "model": short(d["model"]),
                             "spec_from_property_text": short(d["spec"]), "replayed_from": path})
    elif fi.get("l2") and d["impl"][0] == "ok" and d.get("adef"):
        n, diffs = run_l2(ctx, exe, [d], collections.Counter())
        ctx.log(f"L2: {n} lines compared, diffs: {short(diffs, 800)}")
        if diffs:
            vlib.violation(ctx, {"failing_input": fi, "l2": [x if x[0] != "l2-bytes" else ("l2-bytes", {k: v for k, v in x[1].items() if k != "definition"}) for x in diffs[:3]],
                                 "replayed_from": path})
