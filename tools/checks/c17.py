"""C17 — access specifiers decide exactly which operations exist.

Three parts (see notes/C17.md):
  1. coq_gate: props/C17.v re-proved against the capability tables translated from /repo.
  2. compile-fail probe: one generated crate (create_device! with inline DSL and with JSON manifest
     files, every access at object level / global default / ref override / field level, every
     operation), one probe function per (configuration, operation); ONE `cargo check`; every error
     diagnostic is mapped to the probe function containing its primary span.
  3. the verdicts: for every probe the Coq model is evaluated (generated cases.v, vm_compute) for
     (a) what the PROPERTY demands, (b) what the MODEL of the code (translated tables) predicts and
     (c) the recorded wrong behaviour of defect D5.  rustc's verdict must equal (a); a difference is
     a VIOLATION unless it is exactly a listed open known finding (D5, D7).
"""
import hashlib, json, os, re, shutil
import vlib

ACCS = ["RW", "RO", "WO"]
OPT = [None] + ACCS
TARGET_PROBE = os.path.join(vlib.CACHE, "target-probe")
KNOWN_PATH = os.path.join(vlib.VERIF, "KNOWN_FINDINGS.jsonl")

RULE = ("exhaustive: front end {inline DSL, JSON manifest file; thorough tier also YAML and TOML manifest files} x global defaults {none, 3 rotations of (RW,RO,WO) over "
        "register/buffer/field default} x [registers: own access {none,RW,RO,WO} x {plain, ref without access override, "
        "ref overriding to RW/RO/WO} x 8 operations; buffers: own {none,RW,RO,WO} x 16 operations (10 inherent + 6 "
        "embedded-io trait methods); fields: own {none,RW,RO,WO} x {getter, setter}]; one probe function each, one cargo "
        "check, rustc's verdict per probe vs the Coq model's (vm_compute over the translated tables); distinct = "
        "(front end + placement of the deciding specifier, effective access, operation) triples")

# ------------------------------------------------------------------ operations (call syntax only;
# WHICH of them must compile is computed by the Coq model, never here)

OP_CALLS = {
    ("Reg", "read"): (False, ["let _ = dev.{m}().read();"]),
    ("Reg", "write"): (False, ["let _ = dev.{m}().write(|_r| {{}});"]),
    ("Reg", "write_with_zero"): (False, ["let _ = dev.{m}().write_with_zero(|_r| {{}});"]),
    ("Reg", "modify"): (False, ["let _ = dev.{m}().modify(|_r| {{}});"]),
    ("Reg", "read_async"): (True, ["let _ = dev.{m}().read_async().await;"]),
    ("Reg", "write_async"): (True, ["let _ = dev.{m}().write_async(|_r| {{}}).await;"]),
    ("Reg", "write_with_zero_async"): (True, ["let _ = dev.{m}().write_with_zero_async(|_r| {{}}).await;"]),
    ("Reg", "modify_async"): (True, ["let _ = dev.{m}().modify_async(|_r| {{}}).await;"]),
    ("Buf", "write"): (False, ["let _ = dev.{m}().write(&[1u8, 2]);"]),
    ("Buf", "write_all"): (False, ["let _ = dev.{m}().write_all(&[1u8, 2]);"]),
    ("Buf", "flush"): (False, ["let _ = dev.{m}().flush();"]),
    ("Buf", "read"): (False, ["let mut b = [0u8; 4];", "let _ = dev.{m}().read(&mut b);"]),
    ("Buf", "read_exact"): (False, ["let mut b = [0u8; 4];", "let _ = dev.{m}().read_exact(&mut b);"]),
    ("Buf", "write_async"): (True, ["let _ = dev.{m}().write_async(&[1u8, 2]).await;"]),
    ("Buf", "write_all_async"): (True, ["let _ = dev.{m}().write_all_async(&[1u8, 2]).await;"]),
    ("Buf", "flush_async"): (True, ["let _ = dev.{m}().flush_async().await;"]),
    ("Buf", "read_async"): (True, ["let mut b = [0u8; 4];", "let _ = dev.{m}().read_async(&mut b).await;"]),
    ("Buf", "read_exact_async"): (True, ["let mut b = [0u8; 4];", "let _ = dev.{m}().read_exact_async(&mut b).await;"]),
    ("Buf", "embedded_io::Write::write"):
        (False, ["let _ = ::device_driver::embedded_io::Write::write(&mut dev.{m}(), &[1u8, 2]);"]),
    ("Buf", "embedded_io::Write::flush"):
        (False, ["let _ = ::device_driver::embedded_io::Write::flush(&mut dev.{m}());"]),
    ("Buf", "embedded_io::Read::read"):
        (False, ["let mut b = [0u8; 4];", "let _ = ::device_driver::embedded_io::Read::read(&mut dev.{m}(), &mut b);"]),
    ("Buf", "embedded_io_async::Write::write"):
        (True, ["let _ = ::device_driver::embedded_io_async::Write::write(&mut dev.{m}(), &[1u8, 2]).await;"]),
    ("Buf", "embedded_io_async::Write::flush"):
        (True, ["let _ = ::device_driver::embedded_io_async::Write::flush(&mut dev.{m}()).await;"]),
    ("Buf", "embedded_io_async::Read::read"):
        (True, ["let mut b = [0u8; 4];", "let _ = ::device_driver::embedded_io_async::Read::read(&mut dev.{m}(), &mut b).await;"]),
}

MOCK = """\
pub struct Mock;
#[derive(Debug)]
pub struct MockError;
impl ::device_driver::embedded_io::Error for MockError {
    fn kind(&self) -> ::device_driver::embedded_io::ErrorKind { ::device_driver::embedded_io::ErrorKind::Other }
}
impl ::device_driver::RegisterInterface for Mock {
    type Error = MockError;
    type AddressType = u8;
    fn write_register(&mut self, _a: u8, _s: u32, _d: &[u8]) -> Result<(), MockError> { Ok(()) }
    fn read_register(&mut self, _a: u8, _s: u32, _d: &mut [u8]) -> Result<(), MockError> { Ok(()) }
}
impl ::device_driver::AsyncRegisterInterface for Mock {
    type Error = MockError;
    type AddressType = u8;
    async fn write_register(&mut self, _a: u8, _s: u32, _d: &[u8]) -> Result<(), MockError> { Ok(()) }
    async fn read_register(&mut self, _a: u8, _s: u32, _d: &mut [u8]) -> Result<(), MockError> { Ok(()) }
}
impl ::device_driver::BufferInterfaceError for Mock {
    type Error = MockError;
}
impl ::device_driver::BufferInterface for Mock {
    type AddressType = u8;
    fn write(&mut self, _a: u8, b: &[u8]) -> Result<usize, MockError> { Ok(b.len()) }
    fn flush(&mut self, _a: u8) -> Result<(), MockError> { Ok(()) }
    fn read(&mut self, _a: u8, b: &mut [u8]) -> Result<usize, MockError> { Ok(b.len()) }
}
impl ::device_driver::AsyncBufferInterface for Mock {
    type AddressType = u8;
    async fn write(&mut self, _a: u8, b: &[u8]) -> Result<usize, MockError> { Ok(b.len()) }
    async fn flush(&mut self, _a: u8) -> Result<(), MockError> { Ok(()) }
    async fn read(&mut self, _a: u8, b: &mut [u8]) -> Result<usize, MockError> { Ok(b.len()) }
}
"""

CARGO_TOML = """\
[package]
name = "c17_probe"
version = "0.0.0"
edition = "2024"
publish = false

[lib]
path = "src/lib.rs"

[dependencies]
device-driver = { path = "%s/device-driver" }

[workspace]
"""


def tag(a):
    return {None: "Dflt", "RW": "Rw", "RO": "Ro", "WO": "Wo"}[a]


def snake(pascal):
    return re.sub(r"(?<!^)([A-Z])", r"_\1", pascal).lower()


# ------------------------------------------------------------------ definitions

GLOBAL_DEFAULTS = [(None, None, None), ("RW", "RO", "WO"), ("RO", "WO", "RW"), ("WO", "RW", "RO")]  # (reg, buf, field)


class Device:
    """One generated device: front end fe in {dsl, json}, global defaults g = (reg, buf, field)."""

    def __init__(self, fe, gi, only=None):
        self.fe, self.gi = fe, gi
        self.greg, self.gbuf, self.gfield = GLOBAL_DEFAULTS[gi]
        self.mod = f"d_{fe}_{gi}"
        self.regs = [(f"RegOwn{tag(o)}", o) for o in OPT]
        self.refs = [(f"Ref{tag(t)}To{'Keep' if o is None else tag(o)}", f"RegOwn{tag(t)}", t, o) for t in OPT for o in OPT]
        # a second ref WITHOUT access override to every target, declared after the refs that do override it: what one ref
        # overrides is that ref's business only (seed C17-7: a shared ref-target cache carried the override on)
        self.refs += [(f"Ref{tag(t)}ToKeepLate", f"RegOwn{tag(t)}", t, None) for t in OPT]
        # refs that override the access AND the reset value (names ending in Rst): what else a ref overrides does not touch
        # its access override (seed C17-9: the reset-value pass rebuilt the override without the access)
        self.refs += [(f"Ref{tag(t)}To{tag(o)}Rst", f"RegOwn{tag(t)}", t, o) for t in OPT for o in OPT if o is not None]
        # registers nobody refers to (the RegOwn* ones are all re-opened by some ref that overrides the access)
        self.lone = [(f"LoneOwn{tag(o)}", o) for o in OPT]
        self.bufs = [(f"BufOwn{tag(o)}", o) for o in OPT]
        # a register defined TWICE under exclusive cfgs (`cfg(all())` holds in every build, `cfg(any())` in none) with
        # different access, and a ref to it without access override: the ref must behave like the definition that EXISTS
        # in the build.  (name, which definition comes first, active access, inactive access); DSL only — a manifest is
        # a map and cannot hold one key twice.
        self.dups = [(f"Dup{arr}{tag(a)}{tag(i)}", arr, a, i) for arr in ("Act", "Ina")
                     for (a, i) in (("RW", "RO"), ("RO", "RW"), ("WO", "RW"))] if fe == "dsl" else []
        self.fields = [(f"f_{tag(o).lower()}", o) for o in OPT]
        self.only = only   # replay: restrict to the objects one probe needs

    # --- text of the definition in the two syntaxes
    def dsl(self):
        L = ["config {", "    type RegisterAddressType = u8;", "    type BufferAddressType = u8;", "    type DefaultByteOrder = LE;"]
        if self.greg:
            L.append(f"    type DefaultRegisterAccess = {self.greg};")
        if self.gbuf:
            L.append(f"    type DefaultBufferAccess = {self.gbuf};")
        if self.gfield:
            L.append(f"    type DefaultFieldAccess = {self.gfield};")
        L.append("}")
        addr = 0
        for name, own in self.regs:
            acc = f" type Access = {own};" if own else ""
            L.append(f"register {name} {{{acc} const ADDRESS = {addr}; const SIZE_BITS = 8; v: RW uint = 0..8, }},")
            addr += 1
        for name, target, _t, o in self.refs:
            acc = f" type Access = {o};" if o else ""
            rst = " const RESET_VALUE = 5;" if name.endswith("Rst") else ""
            L.append(f"ref {name} = register {target} {{ const ADDRESS = {addr};{acc}{rst} }},")
            addr += 1
        for name, own in self.lone:
            acc = f" type Access = {own};" if own else ""
            L.append(f"register {name} {{{acc} const ADDRESS = {addr}; const SIZE_BITS = 8; v: RW uint = 0..8, }},")
            addr += 1
        for name, arr, act, ina in self.dups:
            defs = [("all()", act), ("any()", ina)]
            if arr == "Ina":
                defs.reverse()
            for cfgx, acc in defs:
                L.append(f"#[cfg({cfgx})]")
                L.append(f"register {name} {{ type Access = {acc}; const ADDRESS = {addr}; const SIZE_BITS = 8; v: RW uint = 0..8, }},")
                addr += 1
            L.append(f"ref Ref{name} = register {name} {{ const ADDRESS = {addr}; }},")
            addr += 1
        for i, (name, own) in enumerate(self.bufs):
            L.append(f"buffer {name}{': ' + own if own else ''} = {i},")
        fl = []
        for i, (fname, own) in enumerate(self.fields):
            fl.append(f"{fname}: {own + ' ' if own else ''}uint = {8 * i}..{8 * i + 8},")
        L.append(f"register Fld {{ type Access = RW; const ADDRESS = {addr}; const SIZE_BITS = 32; " + " ".join(fl) + " }")
        return L

    def manifest(self):
        cfg = {"register_address_type": "u8", "buffer_address_type": "u8", "default_byte_order": "LE"}
        if self.greg:
            cfg["default_register_access"] = self.greg
        if self.gbuf:
            cfg["default_buffer_access"] = self.gbuf
        if self.gfield:
            cfg["default_field_access"] = self.gfield
        d = {"config": cfg}
        addr = 0
        for name, own in self.regs:
            r = {"type": "register", "address": addr, "size_bits": 8,
                 "fields": {"v": {"base": "uint", "access": "RW", "start": 0, "end": 8}}}
            if own:
                r["access"] = own
            d[name] = r
            addr += 1
        for name, target, _t, o in self.refs:
            ov = {"type": "register", "address": addr}
            if o:
                ov["access"] = o
            if name.endswith("Rst"):
                ov["reset_value"] = 5
            d[name] = {"type": "ref", "target": target, "override": ov}
            addr += 1
        for name, own in self.lone:
            r = {"type": "register", "address": addr, "size_bits": 8,
                 "fields": {"v": {"base": "uint", "access": "RW", "start": 0, "end": 8}}}
            if own:
                r["access"] = own
            d[name] = r
            addr += 1
        for i, (name, own) in enumerate(self.bufs):
            b = {"type": "buffer", "address": i}
            if own:
                b["access"] = own
            d[name] = b
        fields = {}
        for i, (fname, own) in enumerate(self.fields):
            f = {"base": "uint", "start": 8 * i, "end": 8 * i + 8}
            if own:
                f["access"] = own
            fields[fname] = f
        d["Fld"] = {"type": "register", "access": "RW", "address": addr, "size_bits": 32, "fields": fields}
        # the position of the `config` entry among the top-level keys is free: first, in the middle or last
        pos = sum(map(ord, self.mod)) % 3
        if pos:
            items = [(k, v) for k, v in d.items() if k != "config"]
            at = len(items) if pos == 2 else len(items) // 2
            items.insert(at, ("config", cfg))
            d = dict(items)
        return d

    @property
    def is_manifest(self):
        return self.fe != "dsl"

    def manifest_name(self):
        return f"manifests/{self.mod}.{self.fe}"

    def manifest_text(self):
        d = self.manifest()
        if self.fe == "toml":
            return to_toml(d)
        # JSON is also valid YAML (flow style): the .yaml file exercises the YAML parser on the same tree
        return json.dumps(d, indent=1) + "\n"

    def definition_text(self):
        return "\n".join(self.dsl()) if self.fe == "dsl" else self.manifest_text()

    def rust(self):
        L = [f"pub mod {self.mod} {{"]
        if self.fe == "dsl":
            L.append("    ::device_driver::create_device!(device_name: Dev, dsl: {")
            L += ["        " + x for x in self.dsl()]
            L.append("    });")
        else:
            L.append(f'    ::device_driver::create_device!(device_name: Dev, manifest: "{self.manifest_name()}");')
        L.append("}")
        return L


def to_toml(d):
    out = []

    def emit(path, table):
        if path:
            out.append("[" + ".".join(path) + "]")
        for k, v in table.items():
            if not isinstance(v, dict):
                out.append(f"{k} = {json.dumps(v)}")
        for k, v in table.items():
            if isinstance(v, dict):
                emit(path + [k], v)
    emit([], d)
    return "\n".join(out) + "\n"


FRONT_ENDS = {"quick": ("dsl", "json"), "thorough": ("dsl", "json", "yaml", "toml")}


def placement(fe, kind, own, refov, is_ref, gdef):
    front = "dsl" if fe == "dsl" else ("manifest" if fe == "json" else "manifest-" + fe)
    if kind == "Fld":
        p = "field-own" if own else ("field-global-default" if gdef else "field-implicit-rw")
    elif is_ref and refov:
        p = "ref-override"
    else:
        base = "object-own" if own else ("global-default" if gdef else "implicit-rw")
        p = ("ref-inherits-" + base) if is_ref else base
    return f"{front}:{p}"


def enumerate_probes(devices, ops):
    """ops: list of (kind, name) to probe.  Returns a list of dict probes (without ids/lines)."""
    P = []
    for d in devices:
        for name, own in d.regs:
            for (k, n) in ops:
                if k == "Reg":
                    P.append(dict(dev=d, kind="Reg", obj=name, method=snake(name), own=own, refov=None, is_ref=False,
                                  gdef=d.greg, op=n))
        for name, _target, t, o in d.refs:
            for (k, n) in ops:
                if k == "Reg":
                    P.append(dict(dev=d, kind="Reg", obj=name, method=snake(name), own=t, refov=o, is_ref=True,
                                  gdef=d.greg, op=n))
        for name, arr, act, ina in d.dups:
            for (k, n) in ops:
                if k == "Reg":
                    P.append(dict(dev=d, kind="Reg", obj="Ref" + name, method=snake("Ref" + name), own=act, refov=None, is_ref=True,
                                  gdef=d.greg, op=n, dup=arr, shadow_own=ina))
        for name, own in d.bufs:
            for (k, n) in ops:
                if k == "Buf":
                    P.append(dict(dev=d, kind="Buf", obj=name, method=snake(name), own=own, refov=None, is_ref=False,
                                  gdef=d.gbuf, op=n))
        for fname, own in d.fields:
            for n in ("get", "set"):
                P.append(dict(dev=d, kind="Fld", obj=fname, method=fname, own=own, refov=None, is_ref=False,
                              gdef=d.gfield, op=n, fs="Fld"))
        # the RW field `v` of every register, whatever the REGISTER's access is (own / global default, with refs that
        # keep or override it): a field's accessors follow the field's access alone (seed C17-5 pruned the setters of
        # registers that nobody can write)
        for name, own in d.regs + d.lone:
            for n in ("get", "set"):
                P.append(dict(dev=d, kind="Fld", obj=f"{name}.v", method="v", own="RW", refov=None, is_ref=False,
                              gdef=d.gfield, op=n, fs=name))
    for i, p in enumerate(P):
        p["id"] = f"probe_{i:04d}"
        p["placement"] = placement(p["dev"].fe, p["kind"], p["own"], p["refov"], p["is_ref"], p["gdef"])
    return P


def probe_source(p):
    m = p["dev"].mod
    if p["kind"] == "Fld":
        if p["op"] == "get":
            body = [f"let r = {m}::field_sets::{p['fs']}::new();", f"let _ = r.{p['method']}();"]
        else:
            body = [f"let mut r = {m}::field_sets::{p['fs']}::new();", f"r.set_{p['method']}(1);"]
        is_async = False
    else:
        is_async, tmpl = OP_CALLS[(p["kind"], p["op"])]
        body = [f"let mut dev = {m}::Dev::new(Mock);"] + [t.format(m=p["method"]) for t in tmpl]
    head = f"pub {'async ' if is_async else ''}fn {p['id']}() {{"
    return [head] + ["    " + b for b in body] + ["}"]


def describe(p):
    d = {"id": p["id"], "front_end": p["dev"].fe, "device": p["dev"].mod, "placement": p["placement"],
         "object_kind": {"Reg": "register", "Buf": "buffer", "Fld": "field"}[p["kind"]], "object": p["obj"],
         "own_access": p["own"], "is_ref": p["is_ref"], "ref_override_access": p["refov"], "global_default": p["gdef"],
         "operation": p["op"]}
    for k in ("effective_access", "property_says_compiles", "model_says_compiles", "rustc_compiles"):
        if k in p:
            d[k] = p[k]
    return d


# ------------------------------------------------------------------ the Coq model as oracle

def coq_opt(a):
    return f"(Some {a})" if a else "None"


def coq_probe(p):
    fe = "FDsl" if p["dev"].fe == "dsl" else "FManifest"
    if p["kind"] == "Fld":
        return f"{'PGet' if p['op'] == 'get' else 'PSet'} {fe} {coq_opt(p['own'])} {coq_opt(p['gdef'])}"
    return f"POp {fe} {p['kind']} {coq_opt(p['own'])} {coq_opt(p['refov'])} {coq_opt(p['gdef'])} \"{p['op']}\""


def coqc(ctx, name, text, timeout=600):
    v = os.path.join(ctx.work, name)
    with open(v, "w") as f:
        f.write(text)
    return vlib.run(["coqc", "-Q", os.path.join(vlib.COQ, "theories"), "DD", "-Q", os.path.join(vlib.COQ, "gen"), "DDGen", v],
                    cwd=ctx.work, timeout=timeout)


HEADER = ("From Coq Require Import List String.\nFrom DD Require Import AccessTypes Access.\n"
          "From DDGen Require Import Caps OpBounds FrontDefaults.\nImport ListNotations.\nOpen Scope string_scope.\n")


def model_tables(ctx):
    """expected_ops (spec), table_keys (translated), capability lists, front_reads_default — as evaluated by Coq."""
    rc, out = coqc(ctx, "tables.v", HEADER +
                   "Definition t_expected := Eval vm_compute in expected_ops.\nPrint t_expected.\n"
                   "Definition t_rows := Eval vm_compute in op_bounds.\nPrint t_rows.\n"
                   "Definition t_caps := Eval vm_compute in (read_capable, write_capable).\nPrint t_caps.\n"
                   "Definition t_front := Eval vm_compute in front_reads_default.\nPrint t_front.\n")
    if rc != 0:
        return None, out
    secs = {}
    for m in re.finditer(r"^(t_[a-z]+) =\s*(.*?)\n\s*:", out, flags=re.S | re.M):
        secs[m.group(1)] = re.sub(r"\s+", "", m.group(2))   # the pretty-printer breaks lines anywhere
    if set(secs) != {"t_expected", "t_rows", "t_caps", "t_front"}:
        return None, "could not parse coqc output:\n" + out[-1500:]
    key = r'\((Reg|Buf),"([^"]+)"'
    t = {"expected": [(k, n) for k, n in re.findall(key + r"\)", secs["t_expected"])],
         "rows": [(k, n, r == "true", w == "true") for k, n, r, w in
                  re.findall(key + r",\s*(true|false),\s*(true|false)\)", secs["t_rows"])],
         "front": {f"{fe}.{d}": v == "true" for fe, d, v in
                   re.findall(r"\((FDsl|FManifest),\s*(DReg|DField|DBuf),\s*(true|false)\)", secs["t_front"])}}
    mc = re.match(r"\s*\(\[(.*?)\],\s*\[(.*?)\]\)", secs["t_caps"], flags=re.S)
    t["read_capable"] = re.findall(r"M[A-Z]+", mc.group(1)) if mc else []
    t["write_capable"] = re.findall(r"M[A-Z]+", mc.group(2)) if mc else []
    if not t["expected"] or not t["rows"] or len(t["front"]) != 6:
        return None, "could not parse coqc output:\n" + out[-1500:]
    return t, out


def model_verdicts(ctx, probes):
    """Evaluates probe_spec / probe_model / probe_spec_without_default / probe_effective on every probe."""
    items = ";\n  ".join(coq_probe(p) for p in probes)
    rc, out = coqc(ctx, "cases.v", HEADER +
                   "Definition verdicts := Eval vm_compute in\n  map (fun p => (probe_spec p, probe_model p, "
                   "probe_spec_without_default p, probe_effective p))\n  [ " + items + " ].\nPrint verdicts.\n")
    if rc != 0:
        return "coqc cases.v failed:\n" + out[-1500:]
    rows = re.findall(r"\((true|false),(true|false),(true|false),(RW|RO|WO)\)", re.sub(r"\s+", "", out))
    if len(rows) != len(probes):
        return f"cases.v: {len(probes)} probes but {len(rows)} verdicts parsed"
    for p, (s, m, nd, eff) in zip(probes, rows):
        p["property_says_compiles"] = s == "true"
        p["model_says_compiles"] = m == "true"
        p["d5_behaviour_compiles"] = nd == "true"
        p["effective_access"] = eff
    return None


# ------------------------------------------------------------------ probe crate

def write_if_changed(path, content):
    os.makedirs(os.path.dirname(path), exist_ok=True)
    if os.path.exists(path) and open(path).read() == content:
        return
    with open(path, "w") as f:
        f.write(content)


def build_crate(root, devices, probes):
    """Writes the crate; records line ranges: p['lines'] and dev.lines (1-based, inclusive)."""
    if os.path.isdir(os.path.join(root, "manifests")):
        shutil.rmtree(os.path.join(root, "manifests"))
    manifests = {}
    for d in devices:
        if d.is_manifest:
            manifests[d.manifest_name()] = d.manifest_text()
    L = ["// GENERATED by /verif/tools/checks/c17.py — compile-fail probe for property C17",
         "#![allow(unused, clippy::all)]",
         "// manifests: " + hashlib.sha1("".join(sorted(manifests.values())).encode()).hexdigest()]
    L += MOCK.splitlines()
    for d in devices:
        start = len(L) + 1
        L += d.rust()
        d.lines = (start, len(L))
    for p in probes:
        start = len(L) + 1
        src = probe_source(p)
        L += src
        p["lines"] = (start, len(L))
        p["source"] = "\n".join(src)
    write_if_changed(os.path.join(root, "Cargo.toml"), CARGO_TOML % vlib.REPO)
    lock = os.path.join(root, "Cargo.lock")
    if not os.path.exists(lock):
        shutil.copy(os.path.join(vlib.REPO, "Cargo.lock"), lock)
    for rel, txt in manifests.items():
        write_if_changed(os.path.join(root, rel), txt)
    write_if_changed(os.path.join(root, "src", "lib.rs"), "\n".join(L) + "\n")
    return L


def cargo_check(root, timeout=1500):
    env = {"CARGO_TARGET_DIR": TARGET_PROBE, "RUSTFLAGS": f"--cfg {vlib.GUARD}"}
    rc, out = vlib.run(["cargo", "check", "--offline", "--lib", "--message-format=json"], cwd=root, env=env, timeout=timeout)
    msgs, other, reached = [], [], False
    for line in out.splitlines():
        if line.startswith("{"):
            try:
                j = json.loads(line)
            except json.JSONDecodeError:
                other.append(line)
                continue
            if "c17_probe" in str(j.get("package_id", "")) and j.get("reason") in ("compiler-message", "compiler-artifact"):
                reached = True          # rustc ran on the probe crate (its dependencies compiled)
            if j.get("reason") == "compiler-message":
                msgs.append(j)
        else:
            other.append(line)
    return rc, msgs, other, reached


def primary_span(msg):
    for s in msg.get("spans", []):
        if s.get("is_primary"):
            return s
    return None


def outermost_callsite(span):
    """The span in the crate's own source for a diagnostic inside macro-generated code."""
    s = span
    while s.get("expansion"):
        s = s["expansion"]["span"]
    return s


def classify_diagnostics(msgs, devices, probes):
    """Returns (errors_by_probe, device_errors, stray).  Only level == error is considered."""
    by_probe, dev_errs, stray = {}, [], []
    for j in msgs:
        m = j["message"]
        if m.get("level") != "error":
            continue
        text = m.get("message", "")
        if not m.get("spans") and text.startswith("aborting due to"):
            continue
        code = (m.get("code") or {}).get("code")
        sp = primary_span(m)
        rec = {"code": code, "message": text, "package": j.get("package_id", ""),
               "unsatisfied": sorted(set(re.findall(r"device_driver::([A-Z]+): device_driver::((?:Read|Write)Capability)",
                                                    text + " " + (m.get("rendered") or ""))))}
        if sp is None:
            stray.append(rec)
            continue
        rec["in_macro_expansion"] = bool(sp.get("expansion"))
        cs = outermost_callsite(sp)
        rec["file"], rec["line"] = cs.get("file_name"), cs.get("line_start")
        if "c17_probe" not in rec["package"] or rec["file"] != os.path.join("src", "lib.rs"):
            stray.append(rec)
            continue
        hit = None
        for p in probes:
            if p["lines"][0] <= rec["line"] <= p["lines"][1]:
                hit = p
                break
        if hit is not None:
            by_probe.setdefault(hit["id"], []).append(rec)
            continue
        for d in devices:
            if d.lines[0] <= rec["line"] <= d.lines[1]:
                rec["device"] = d.mod
                dev_errs.append(rec)
                break
        else:
            stray.append(rec)
    return by_probe, dev_errs, stray


# ------------------------------------------------------------------ known findings

# (documentation of the entries this check relies on; KNOWN_FINDINGS.jsonl is never written at run time)
DEFAULT_FINDINGS = [
    {"id": "D5", "property": "C17", "status": "open", "class": "manifest front end ignores default_*_access",
     "witness": "JSON config {default_register_access: RO}, register without own access: .write() compiles (accessor is RW)",
     "recorded_behaviour": "objects/fields without own access behave as if no global default had been given"},
    {"id": "D7", "property": "C19", "status": "open", "class": "field set with a WriteOnly field emits a Debug impl calling the missing getter",
     "witness": "register { f: WO uint = 0..8 } -> error[E0599]: no method named `f` found, inside `impl Debug for` the field set"},
    {"id": "D7", "property": "C17", "status": "open", "class": "field set with a WriteOnly field emits a Debug impl calling the missing getter",
     "note": "C17's probe crate contains WO fields; the D7 diagnostic lands outside the probe functions and is recognised, not counted"},
]


def is_d7_diag(rec, dev_by_mod, probes):
    """E0599 `no method named `<field>`` raised from generated code of a device whose field <field> has no
    getter according to the PROPERTY (effective access WO): the Debug impl calling the missing getter."""
    if rec.get("code") != "E0599" or not rec.get("in_macro_expansion"):
        return None
    m = re.match(r"no method named `([a-z_0-9]+)` found for (?:reference|struct|mutable reference) `&?(?:mut )?(?:[a-z_0-9]+::)*Fld`", rec["message"])
    if not m:
        return None
    fname = m.group(1)
    for p in probes:
        if p["dev"].mod == rec.get("device") and p["kind"] == "Fld" and p["op"] == "get" and p["method"] == fname:
            return p
    return None


# ------------------------------------------------------------------ run

def rejection_reason(p, rec):
    """Small enum for WHY rustc rejected a probe; 'other' is anything that is not the access mechanism."""
    msg = rec["message"]
    if p["kind"] == "Fld":
        want = p["method"] if p["op"] == "get" else "set_" + p["method"]
        if rec["code"] == "E0599" and re.match(r"no method named `%s` found for struct `[a-z_0-9:]*%s`" % (want, p["fs"]), msg):
            return "accessor-not-generated"
        return "other"
    opname = p["op"].split("::")[-1]
    ty = "RegisterOperation" if p["kind"] == "Reg" else "BufferOperation"
    if rec["code"] == "E0599" and re.match(r"the method `%s` exists for struct `%s<.*>`, but its trait bounds were not satisfied" % (opname, ty), msg) \
            and rec["unsatisfied"]:
        return "capability-bound-unsatisfied"
    if rec["code"] == "E0277" and re.match(r"the trait bound `device_driver::[A-Z]+: device_driver::(Read|Write)Capability` is not satisfied", msg):
        return "capability-bound-unsatisfied"
    if rec["code"] == "E0599" and re.match(r"no method named `%s` found for struct `%s<" % (opname, ty), msg):
        return "operation-does-not-exist"
    return "other"


def evaluate(ctx, devices, probes, root):
    """Build + check the crate, attach rustc's verdict to every probe."""
    build_crate(root, devices, probes)
    rc, msgs, other, reached = cargo_check(root)
    by_probe, dev_errs, stray = classify_diagnostics(msgs, devices, probes)
    for p in probes:
        errs = by_probe.get(p["id"], [])
        p["rustc_compiles"] = not errs
        p["rustc_errors"] = [f"{e['code']}: {e['message']}" for e in errs][:3]
        p["rejection_reasons"] = sorted({rejection_reason(p, e) for e in errs})
        p["rustc_markers"] = sorted({mk for e in errs for mk, _cap in e["unsatisfied"]})
    return by_probe, dev_errs, stray, rc, other, reached


def replay_obj(p, why):
    d = p["dev"]
    return {"what": why, "failing_input": describe(p),
            "definition_syntax": d.fe, "definition": d.definition_text(),
            "device_module": "\n".join(d.rust()), "probe_function": p["source"],
            "property_says_compiles": p["property_says_compiles"], "rustc_compiles": p["rustc_compiles"],
            "rustc_errors": p["rustc_errors"], "model_says_compiles": p["model_says_compiles"],
            "replay_cmd": "./check C17 --replay <this file>"}


def severity_key(p):
    # forbidden-but-compiles first (the dangerous direction), DSL before manifest, plain objects before refs
    return (p["rustc_compiles"] is False, p["dev"].fe != "dsl", p["is_ref"], p["kind"] != "Reg", p["id"])


def run(ctx):
    info = vlib.coq_gate(ctx)
    known = {f["id"]: f for f in vlib.load_known_findings("C17")}
    cov = {"evaluations": 0, "distinct_nontrivial": 0, "rule": RULE, "samples": [], "exhaustive": True}
    assumptions = ["rustc's diagnostics are the observation: a probe 'compiles' iff no error diagnostic has its primary span "
                   "(outermost call site) inside the probe function",
                   "the mapping access -> marker type (mir::Access::to_tokens) and the field filters of field_set_transform.rs "
                   "are hand-modelled in Access.v and tied by the probe only"]

    def fail_no_input(reason, **extra):
        vlib.violation(ctx, {"broken": reason, "theorem": "props/C17.v", **extra}, no_input=True)
        vlib.write_evidence(ctx, info, cov, assumptions=assumptions)

    # the model must at least compile (definitions only) to serve as the oracle
    ok, log = vlib.coq_build(["theories/Access.vo"])
    stale_model = None
    if not ok:
        stale_model = "the access model / translated tables do not build: " + (info.get("reason") or log[-800:])
        if not os.path.exists(os.path.join(vlib.COQ, "theories", "Access.vo")):
            return fail_no_input(stale_model)
        # e.g. the translator refused the source: keep going with the previously compiled model so that the probe
        # can still look for a concrete failing call (the SPEC half of the model does not depend on the tables)
        ctx.log("WARNING:", stale_model.splitlines()[0], "- using the previously compiled model as oracle")
        info = dict(info, ok=False, reason=info.get("reason") or stale_model)
    tables, out = model_tables(ctx)
    if tables is None:
        return fail_no_input((stale_model + "; " if stale_model else "") + "could not evaluate the model tables: " + out[-800:])
    cov["translated_tables"] = {"op_bounds_rows": len(tables["rows"]), "read_capable": tables["read_capable"],
                                "write_capable": tables["write_capable"], "front_reads_default": tables["front"]}
    if sorted(tables["expected"]) != sorted(OP_CALLS):
        return fail_no_input("harness out of date: the operations named by the spec (Access.v expected_ops) differ from the "
                             "probe call templates", spec_ops=tables["expected"])
    table_keys = [(k, n) for k, n, _r, _w in tables["rows"]]
    unprobed = sorted(set(table_keys) - set(OP_CALLS))
    missing_ops = sorted(set(OP_CALLS) - set(table_keys))

    # probes cover every operation the property names (also those the source no longer defines)
    ops = list(tables["expected"])
    devices = [Device(fe, gi) for fe in FRONT_ENDS[ctx.tier] for gi in range(len(GLOBAL_DEFAULTS))]
    probes = enumerate_probes(devices, ops)
    err = model_verdicts(ctx, probes)
    if err:
        return fail_no_input(err)
    # D23: what the probe would do if the ref carried the access of the definition that does NOT exist in the build
    shadows = [dict(p, own=p["shadow_own"]) for p in probes if p.get("dup") == "Ina"]
    err = model_verdicts(ctx, shadows) if shadows else None
    if err:
        return fail_no_input(err)
    for p, q in zip([p for p in probes if p.get("dup") == "Ina"], shadows):
        p["d23_behaviour_compiles"] = q["property_says_compiles"]
    root = os.path.join(ctx.work, "probe")
    by_probe, dev_errs, stray, rc, other, reached = evaluate(ctx, devices, probes, root)
    ctx.log(f"probe crate: {len(probes)} probe functions, {len(devices)} devices, cargo check rc={rc}, "
            f"{sum(len(v) for v in by_probe.values())} errors in probes, {len(dev_errs)} in generated code, {len(stray)} elsewhere")

    cov["evaluations"] = len(probes)
    cov["distinct_nontrivial"] = len({(p["placement"], p["effective_access"], p["kind"] + ":" + p["op"]) for p in probes})
    hist = {}
    for p in probes:
        hist[p["placement"]] = hist.get(p["placement"], 0) + 1
    cov["input_distribution"] = dict(sorted(hist.items()))
    cov["probes_rustc_rejects"] = sum(1 for p in probes if not p["rustc_compiles"])
    cov["probes_property_forbids"] = sum(1 for p in probes if not p["property_says_compiles"])
    reasons = {}
    for p in probes:
        for r in p["rejection_reasons"]:
            reasons[r] = reasons.get(r, 0) + 1
    cov["rejection_reasons"] = dict(sorted(reasons.items()))

    def sample(pred):
        for p in probes:
            if pred(p):
                return [dict(describe(p), probe_function=p["source"], rustc_errors=p["rustc_errors"])]
        return []
    cov["samples"] = (sample(lambda p: p["rustc_compiles"] and p["kind"] == "Reg")
                      + sample(lambda p: not p["rustc_compiles"] and p["kind"] == "Reg" and p["dev"].fe == "dsl" and p["gdef"] and not p["own"] and not p["is_ref"])
                      + sample(lambda p: not p["rustc_compiles"] and p["is_ref"] and p["refov"])
                      + sample(lambda p: not p["rustc_compiles"] and "::" in p["op"])
                      + sample(lambda p: not p["rustc_compiles"] and p["kind"] == "Fld")
                      + sample(lambda p: p["dev"].is_manifest and p["rustc_compiles"] != p["property_says_compiles"]))

    # a compile that did not even reach the probe crate: nothing was observed
    if not reached:
        cov["evaluations"] = 0
        cov["distinct_nontrivial"] = 0
        cov["samples"] = []
        return fail_no_input("the probe crate's dependencies do not compile against /repo's working tree",
                             diagnostics=stray[:5], cargo_output=other[-15:])

    violations = []          # (probe, why)
    known_hits = {"D5": [], "D7": [], "D23": []}
    for p in probes:
        if p["rustc_compiles"] == p["property_says_compiles"]:
            continue
        if p.get("dup") == "Ina" and "D23" in known and p["rustc_compiles"] == p["d23_behaviour_compiles"]:
            known_hits["D23"].append(p)
            continue
        d5_class = (p["dev"].is_manifest and p["gdef"] is not None and p["own"] is None and p["refov"] is None)
        if d5_class and "D5" in known and p["rustc_compiles"] == p["d5_behaviour_compiles"]:
            known_hits["D5"].append(p)
            continue
        why = ("call FORBIDDEN by the access specifier compiles" if p["rustc_compiles"]
               else "call PERMITTED by the access specifier is rejected by rustc")
        violations.append((p, why))
    for p in probes:
        if p["rustc_compiles"] or p["property_says_compiles"]:
            continue
        # rejected as the property demands — but is it rejected BY the access mechanism, with the marker of the
        # effective access?  (a typo in the harness or a wrong marker type would otherwise hide here)
        want = ["accessor-not-generated"] if p["kind"] == "Fld" else ["capability-bound-unsatisfied"]
        if p["rejection_reasons"] != want:
            violations.append((p, f"call is rejected, but not by the access mechanism (reasons: {p['rejection_reasons']})"))
        elif p["kind"] != "Fld" and p["rustc_markers"] != [p["effective_access"]]:
            violations.append((p, f"call is rejected because the accessor carries marker type(s) {p['rustc_markers']}, "
                                  f"not the marker of its effective access {p['effective_access']}"))
    model_stale = [] if stale_model else [p for p in probes if p["rustc_compiles"] == p["property_says_compiles"]
                                          and p["model_says_compiles"] != p["rustc_compiles"]]

    # errors outside probe functions
    dev_by_mod = {d.mod: d for d in devices}
    unexplained = []
    for rec in dev_errs:
        fp = is_d7_diag(rec, dev_by_mod, probes)
        # D7 applies where the generated field really has no getter; that the getter is absent is itself judged by
        # the field's own get-probe above, here we only account for the diagnostic
        if fp is not None and "D7" in known and not fp["rustc_compiles"]:
            known_hits["D7"].append((fp, rec))
        else:
            unexplained.append(rec)
    unexplained += stray

    if known_hits["D5"]:
        ps = known_hits["D5"]
        ex = sorted(ps, key=severity_key)[0]
        vlib.known_finding(ctx, known["D5"], f"manifest global default access ignored: {len(ps)} probes behave as if no default "
                           f"were given, e.g. {ex['dev'].mod}.{ex['method']} ({ex['kind']}, default {ex['gdef']}) "
                           f"{ex['op']}: property says compiles={ex['property_says_compiles']}, rustc compiles={ex['rustc_compiles']}")
        cov["known_D5_probes"] = len(ps)
    if known_hits["D23"]:
        ps = known_hits["D23"]
        ex = ps[0]
        vlib.known_finding(ctx, known["D23"], f"a ref to a register defined under several cfgs takes the access of the FIRST definition "
                           f"although that one does not exist in the build: {len(ps)} probes, e.g. {ex['dev'].mod}.{ex['method']} "
                           f"{ex['op']}: the existing definition is {ex['own']}, the ref behaves as {ex['shadow_own']}")
        cov["known_D23_probes"] = len(ps)
    if known_hits["D7"]:
        hs = known_hits["D7"]
        vlib.known_finding(ctx, known["D7"], f"Debug impl of a field set calls the getter of a write-only field: {len(hs)} "
                           f"E0599 diagnostics in generated code, e.g. {hs[0][1]['device']}: {hs[0][1]['message'][:90]}")
        cov["known_D7_diagnostics"] = len(hs)

    typeck_ran = any(not p["rustc_compiles"] for p in probes) or bool(known_hits["D7"])
    if unexplained and not typeck_ran:
        # e.g. a definition was rejected by the generator (compile_error!): bodies were never type-checked, so
        # "no error in the probe" means nothing
        cov["disagreements"] = 0
        cov["evaluations"] = 0
        cov["distinct_nontrivial"] = 0
        vlib.violation(ctx, {"broken": "the probe crate failed before type checking; no probe verdict is meaningful",
                             "diagnostics": unexplained[:10], "cargo_output": other[-10:]}, no_input=True)
        vlib.write_evidence(ctx, info, cov, assumptions=assumptions)
        return
    cov["disagreements"] = len(violations)
    reported = False
    if violations:
        violations.sort(key=lambda v: severity_key(v[0]))
        p, why = violations[0]
        obj = replay_obj(p, why)
        obj["all_disagreements"] = len(violations)
        obj["other_disagreements"] = [describe(q) for q, _ in violations[1:25]]
        if not info["ok"]:
            obj["broken_proof"] = info["reason"]
        vlib.violation(ctx, obj)
        reported = True
    if unexplained:
        vlib.violation(ctx, {"what": "error diagnostics outside the probe functions that are not a listed known finding",
                             "diagnostics": unexplained[:10], "cargo_output": other[-10:]}, no_input=not violations)
        reported = True
    if model_stale and not reported:
        p = sorted(model_stale, key=severity_key)[0]
        obj = replay_obj(p, "the code satisfies the property here but the Coq MODEL of the code predicts otherwise "
                            "(model or translator out of date): the tie model<->code is broken")
        obj["all_disagreements"] = len(model_stale)
        vlib.violation(ctx, obj, no_input=True)
        reported = True
    if (unprobed or missing_ops) and not reported:
        # the table differs from the property's list but every probe agrees (cannot happen for a missing op)
        vlib.violation(ctx, {"broken": "the translated operation table differs from the operations the property names",
                             "operations_in_source_not_in_property": unprobed, "operations_in_property_not_in_source": missing_ops,
                             "proof": info.get("reason")}, no_input=True)
        reported = True
    if not info["ok"] and not reported:
        vlib.violation(ctx, {"broken": info["reason"], "theorem": "props/C17.v",
                             "note": "the proof no longer checks; every probe agrees with the property"}, no_input=True)
    if ctx.tier == "thorough" and info["ok"]:
        ok, out = vlib.coqchk("C17")
        cov["coqchk"] = out.strip().splitlines()[-4:]
        if not ok:
            vlib.violation(ctx, {"broken": "coqchk rejected the compiled proofs", "detail": out[-800:]}, no_input=True)
    vlib.write_evidence(ctx, info, cov, assumptions=assumptions)


# ------------------------------------------------------------------ replay

def replay(ctx, path):
    d = json.load(open(path))
    fi = d.get("failing_input")
    if not fi or "device" not in fi:
        ctx.log("replay file names a broken obligation, not a probe:", d.get("broken") or d.get("what"))
        run(ctx)
        return
    ok, log = vlib.coq_build(["theories/Access.vo"])
    if not ok:
        vlib.violation(ctx, {"broken": "model does not compile: " + log[-600:]}, no_input=True)
        return
    fe, gi = fi["device"].split("_")[1], int(fi["device"].split("_")[2])
    dev = Device(fe, gi)
    ops = [(k, n) for (k, n) in OP_CALLS]
    probes = [p for p in enumerate_probes([dev], ops)
              if p["obj"] == fi["object"] and p["op"] == fi["operation"] and p["kind"] == {"register": "Reg", "buffer": "Buf", "field": "Fld"}[fi["object_kind"]]]
    if len(probes) != 1:
        vlib.violation(ctx, {"broken": "replay file does not identify exactly one probe", "failing_input": fi}, no_input=True)
        return
    err = model_verdicts(ctx, probes)
    if err:
        vlib.violation(ctx, {"broken": err}, no_input=True)
        return
    root = os.path.join(ctx.work, "replay")
    *_rest, reached = evaluate(ctx, [dev], probes, root)
    if not reached:
        vlib.violation(ctx, {"broken": "the probe crate's dependencies do not compile against /repo's working tree"}, no_input=True)
        return
    p = probes[0]
    ctx.log("probe:", json.dumps(describe(p)))
    ctx.log("source:\n" + p["source"])
    ctx.log(f"property says compiles={p['property_says_compiles']}  rustc compiles={p['rustc_compiles']}  {p['rustc_errors']}")
    if p["rustc_compiles"] != p["property_says_compiles"]:
        known = {f["id"]: f for f in vlib.load_known_findings("C17")}
        d5_class = (p["dev"].is_manifest and p["gdef"] is not None and p["own"] is None and p["refov"] is None)
        if d5_class and "D5" in known and p["rustc_compiles"] == p["d5_behaviour_compiles"]:
            vlib.known_finding(ctx, known["D5"], "manifest global default access ignored (replayed probe)")
        else:
            vlib.violation(ctx, replay_obj(p, "replayed: rustc's verdict differs from the property"))
