"""C10 — buffer operations honour the embedded-io read/write contracts."""
import random
import vlib
from checks import proto_common as pc

THEOREMS = ("C10_passthrough, C10_write_all, C10_write_all_meaning, C10_read_exact, C10_read_exact_meaning, "
            "C10_async_equiv, C10_trait_equiv (props/C10.v)")
RULE = ("exhaustive at the bound: write_all / read_exact with request lengths 0..%d x every sequence of per-call "
        "interface outcomes {accept 1..remaining (continues), 0, Err, remaining+1 (out of contract)} up to the call that "
        "ends it (2^(n+1) sequences per length n) x 4 entry points (inherent blocking, inherent *_async, embedded_io "
        "trait, embedded_io_async trait) x (async) every Pending pattern in {0,1,2}^calls for <= %d calls, 3 random "
        "patterns above; write / flush / read with every reported count 0..len+1 and Err x 4 entry points x Pending "
        "0,1,2; buffer contents, bytes stored by the interface (exact, short, long: scribbling beyond the reported "
        "count); plus LONG requests (255..70000 bytes, thorough: ..200000) through every entry point with the interface "
        "taking everything, all but one byte, 65535, half or a random count per call; plus sequences of 2..5 single-call "
        "operations (write/read/flush, fixed shapes such as flush,flush and write,flush,flush first) on ONE operation object x 4 "
        "entry points vs the per-call model; error codes, addresses random from the seed; real BufferOperation on a scripted (Async)BufferInterface "
        "vs extracted Coq model (calls with slice contents, result, caller's slice afterwards, panics, poll counts); "
        "distinct = (entry point, operation, request length, per-call slice lengths, outcome kind) classes")


def run(ctx):
    info = vlib.coq_gate(ctx)
    rng = random.Random(ctx.seed)
    maxlen, fullp = (6, 4) if ctx.tier == "quick" else (9, 6)
    lines = pc.buf_cases(rng, maxlen, fullp)
    # long requests (seed C10-8: an async write clamped to a 16-bit transfer counter)
    lines += pc.buf_big_cases(rng, pc.BIG_LENGTHS if ctx.tier == "quick" else pc.BIG_LENGTHS + (131071, 131072, 200000))
    stats, diffs, err = pc.correspondence(ctx, lines, "B")
    # sequences of calls on ONE operation object vs the per-call model (the contract is per call)
    nseq, sdiffs = (0, [])
    if not err and not diffs:
        nseq, sdiffs = pc.run_buf_seqs(ctx, pc.buf_seq_cases(rng, 60 if ctx.tier == "quick" else 600))
        stats["evaluations"] += nseq
        stats["histogram"]["sequences_on_one_operation_object"] = nseq
        if sdiffs:
            q, a, want = sorted(sdiffs, key=lambda d: len(d[0]))[0]
            vlib.violation(ctx, {"what": "a sequence of buffer calls on ONE BufferOperation object differs from the per-call model: a call's "
                                         "behaviour depends on what was called before it on the same object",
                                 "failing_input": {"case_line": q, "reading": "Q <entry point s|t|a|u> <address> <op:caller bytes;...> <interface "
                                                   "script: one answer per call>"},
                                 "implementation": a, "model_and_spec": want, "disagreements": len(sdiffs)})
    pc.report(ctx, info, stats, diffs, err, "C10", THEOREMS, RULE % (maxlen, fullp),
              "buffer.rs disagrees with the proven model of the embedded-io contracts (calls, result, delivered bytes or panic)",
              extra_assumptions=["the provided trait methods write_all/read_exact are code of embedded-io(-async) 0.6.1 (transcribed from "
                                 "the registry sources), running on the required methods implemented in buffer.rs"])


def replay(ctx, path):
    import json
    try:
        line = (json.load(open(path)).get("failing_input") or {}).get("case_line") or ""
    except (OSError, ValueError):
        line = ""
    if line.startswith("Q "):
        # a sequence on one operation object: the runner executes it, the model is asked call by call
        ent, addr, items, scr = line.split(" ")[1:5]
        ents = scr.split(",")
        bl = [f"B {ent} {it.split(':')[0]} {addr} {it.split(':')[1]} {ents[i]}" for i, it in enumerate(items.split(";"))]
        n, d = pc.run_buf_seqs(ctx, [(line, bl)])
        ctx.log("sequence:", line, "->", "DIFFERS" if d else "agrees")
        if d:
            vlib.violation(ctx, {"failing_input": {"case_line": line}, "implementation": d[0][1], "model_and_spec": d[0][2]})
        return
    if not pc.replay(ctx, path, "C10"):
        run(ctx)
