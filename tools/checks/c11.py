"""C11 — field-layout validation accepts exactly the well-formed layouts."""
import copy, json, os, random, collections
import vlib, adef
from checks import gen_common, pipeline_common

RULE = ("boundary-biased register/command layouts (touching, nested, crossing, empty, reversed, one-past ranges; bool "
        "forms; overlap flag; byte order at object/global/nowhere; sizes around 8; nesting in blocks) rendered as DSL "
        "and as JSON/YAML/TOML, fed to the real transform_*; the MIR produced by the REAL front end is parsed and the Coq "
        "model layout_check evaluated on it (coqc vm_compute); compared: accept/reject, error kind, object and field "
        "names; a panic of the generator is a violation. distinct = distinct (sizes, ranges, flags, orders) layouts")

NAMES = ["alpha", "beta", "gamma", "delta", "eps", "zeta", "eta", "theta"]
OBJ = ["Ra", "Rb", "Rc", "Rd", "Re", "Rf", "Rg", "Rh", "Ri", "Rj"]


_ENUM_SERIAL = [0]


def _serial_tag(k):
    """letters only (a digit would be a word boundary for the name normalisation): 1 -> b, 27 -> bb"""
    out = ""
    while True:
        out = "abcdefghijklmnopqrstuvwxyz"[k % 26] + out
        k //= 26
        if k == 0:
            return "X" + out


def gen_fields(rng, size, malformed):
    n = rng.choice([0, 1, 1, 2, 2, 3, 4, 5])
    fields = []
    pos = 0
    for i in range(n):
        base = rng.choice(["uint", "uint", "int", "bool"])
        r = rng.random()
        if base == "bool":
            start = rng.randrange(0, max(1, size + 1))
            form = rng.random()
            if form < 0.5:
                end = None
            elif form < 0.85 or not malformed:
                end = start + 1
            else:
                end = start + rng.choice([0, 2, 3, -1, -2])     # zero-width, too wide, reversed
                if end < 0:
                    end = 0
            conv = adef.mk_direct("crate::Ty") if (malformed and rng.random() < 0.15) else None
        else:
            # an inline enum that is fine for every width (`try`, one variant numbered 0): the enum pass runs BEFORE the
            # layout passes and sees the ill-formed ranges first; whatever the range, the outcome is the layout verdict and
            # never a panic (seed C11-10: a width computed as end - start there)
            _ENUM_SERIAL[0] += 1
            conv = adef.mk_enum(f"En{NAMES[i].capitalize()}{_serial_tag(_ENUM_SERIAL[0])}", [adef.mk_variant("Va", 0)], True) if rng.random() < 0.15 else None
            if r < 0.55:      # tile
                start = pos
                end = min(size, start + rng.choice([1, 1, 2, 3, 4, 7, 8, 9]))
                if end <= start:
                    start = max(0, size - 1)
                    end = size
            elif r < 0.75:    # random inside
                start = rng.randrange(0, max(1, size))
                end = rng.randrange(start + 1, size + 1) if size > start else start + 1
            elif r < 0.85:    # touching / one past
                end = size + rng.choice([0, 0, 1])
                start = max(0, end - rng.choice([1, 2, 8]))
            elif r < 0.93:    # empty or reversed
                start = rng.randrange(0, size + 1)
                end = start - rng.choice([0, 0, 1, 2])
                if end < 0:
                    end = 0
            else:             # nested / crossing
                start = max(0, pos - rng.choice([1, 2, 3]))
                end = min(size + 1, start + rng.choice([1, 2, 5]))
        if end is not None:
            pos = max(pos, end)
        else:
            pos = max(pos, start + 1)
        # a cfg on a field gates its accessors, it does not take the field out of the layout: two fields behind
        # different (not mutually exclusive) cfgs overlap like any other two (seed C11-8 skipped such pairs)
        fcfg = rng.choice([None, None, None, None, 'feature = "xa"', 'feature = "xb"', 'feature = "xb"', "unix"])
        fields.append(adef.mk_field(NAMES[i], base, start, end, conv=conv, cfg=fcfg))
    return fields


def gen_def(rng, malformed_rate):
    malformed = rng.random() < malformed_rate
    cfg = adef.mk_config(register_address_type="u16", command_address_type="u16")
    if rng.random() < 0.4:
        cfg["default_byte_order"] = rng.choice(["LE", "BE"])
    objs = []
    addr = 0
    nobj = rng.choice([1, 1, 2, 3])
    for i in range(nobj):
        name = OBJ[i]
        bo = rng.choice([None, None, "LE", "BE"])
        allow = rng.choice([None, None, None, True, False])
        if rng.random() < 0.7:
            size = rng.choice([1, 4, 7, 8, 8, 9, 15, 16, 17, 24, 32])
            o = adef.mk_register(name, addr, size, gen_fields(rng, size, malformed), byte_order=bo, allow_bit_overlap=allow)
        else:
            si = rng.choice([None, 0, 3, 8, 9, 16])
            so = rng.choice([None, 0, 8, 12, 16])
            o = adef.mk_command(name, addr, size_bits_in=si, size_bits_out=so,
                                fields_in=gen_fields(rng, si or 0, malformed) if si is not None or rng.random() < 0.2 else None,
                                fields_out=gen_fields(rng, so or 0, malformed) if so is not None or rng.random() < 0.2 else None,
                                byte_order=bo, allow_bit_overlap=allow)
            if o.get("fields_in") and rng.random() < 0.3:
                # an echo command: the out field list is EXACTLY the in field list, the two sizes are independent (seed
                # C03-12: a pass that skips the out checks when the lists are equal never compares them with SIZE_BITS_OUT)
                for f in o["fields_in"]:
                    if f.get("conv") and f["conv"].get("type") == "enum":
                        f["conv"] = None          # an inline enum declared twice is a NAME error, not this property's matter
                o["fields_out"] = copy.deepcopy(o["fields_in"])
                o["size_bits_out"] = rng.choice([so, 8, 12, 16, si])
        addr += 1
        objs.append(o)
    if len(objs) > 1 and rng.random() < 0.4:
        k = rng.randrange(0, len(objs))
        inner = objs[k:]
        objs = objs[:k] + [adef.mk_block("Blk", inner, address_offset=100)]
    return {"config": cfg, "objects": objs}


def oracle_wf(d):
    """The property's wording evaluated on the ABSTRACT definition (what was written, before any front end): every field
    has a non-empty bit range inside the declared size, bool fields are exactly one bit and carry no conversion, no two
    fields of one field set overlap unless the object allows it, a byte order is known (object or global) whenever a field
    set is larger than 8 bits.  -> True (must not be rejected for layout reasons) / False (must be rejected)."""
    dbo = d["config"].get("default_byte_order")
    for o, _ in adef.walk(d["objects"]):
        if o["kind"] == "register":
            sets = [(o["size_bits"] or 0, o.get("fields") or [])]
        elif o["kind"] == "command":
            sets = [(o.get("size_bits_in") or 0, o.get("fields_in") or []), (o.get("size_bits_out") or 0, o.get("fields_out") or [])]
        else:
            continue
        if any(sz > 8 for sz, _ in sets) and not (o.get("byte_order") or dbo):
            return False
        for sz, fields in sets:
            rs = []
            for f in fields:
                s_, e_ = f["start"], (f["end"] if f["end"] is not None else f["start"] + 1)
                if f["base"] == "bool" and e_ == s_:
                    e_ = s_ + 1        # a single-address bool (start = end in every front end's MIR) denotes the one bit there
                if f["base"] == "bool" and (e_ != s_ + 1 or f["conv"] is not None):
                    return False
                if not (0 <= s_ < e_ <= sz):
                    return False
                rs.append((s_, e_))
            if not o.get("allow_bit_overlap"):
                for a in range(len(rs)):
                    for b in range(a + 1, len(rs)):
                        if rs[a][0] < rs[b][1] and rs[b][0] < rs[a][1]:
                            return False
    return True


def run(ctx):
    info = vlib.coq_gate(ctx)
    exe, err = gen_common.build_gen_runner(ctx)
    if err:
        vlib.violation(ctx, {"broken": err}, no_input=True)
        vlib.write_evidence(ctx, info, {"evaluations": 0, "distinct_nontrivial": 0, "rule": RULE, "samples": []})
        return
    rng = random.Random(ctx.seed)
    n = 1500 if ctx.tier == "quick" else 20000
    cases, defs = [], {}
    for i in range(n):
        d = gen_def(rng, 0.55)
        syntax = rng.choice(["dsl", "dsl", "json", "yaml", "toml"])
        cid = f"c{i}"
        defs[cid] = (d, syntax)
        cases.append({"id": cid, "syntax": syntax, "text": adef.render(d, syntax, rng), "name": "Dev", "want": ["mir"]})
    res = gen_common.run_gen(ctx, exe, cases)
    terms = []
    hist = collections.Counter()
    for c in cases:
        r = res[c["id"]]
        t = None
        try:
            t = gen_common.mir_term(r)
        except Exception as ex:  # unparsable MIR = harness problem, reported below
            hist["mir_parse_error"] += 1
        if t is not None:
            terms.append((c["id"], t))
    model = gen_common.eval_model(ctx, ["Layout"], "layout_result", terms)
    diffs = []
    distinct = set()
    for c in cases:
        cid = c["id"]
        r = res[cid]
        impl = gen_common.canon_status(r)
        hist[impl.split(":")[1] if impl.startswith("error:") else impl] += 1
        hist["syntax_" + c["syntax"]] += 1
        distinct.add(json.dumps(defs[cid][0], sort_keys=True))
        if cid not in model:
            # front end rejected (no MIR): only DSL-level rejections of non-bool single addresses are layout-related
            if impl in ("panic", "abort"):
                diffs.append((cid, impl, "no-mir"))
            continue
        m = model[cid]
        # the property's wording on the definition AS WRITTEN: a front end that distorts a field (seed C11-7: a manifest
        # that spells `end` before `start`) changes the verdict although passes and model agree on the distorted MIR
        if impl not in ("panic", "abort") and oracle_wf(defs[cid][0]) != (impl == "ok"):
            diffs.append((cid, impl, "the property's wording on the definition as written: " +
                          ("well-formed, must not be rejected for layout reasons" if impl != "ok" else "ill-formed, must be rejected")))
            continue
        if impl != m:
            if gen_common.reworded_ok(r, m):
                hist["reworded_message"] += 1
                continue
            diffs.append((cid, impl, m))
    acc = hist["ok"] / max(1, len(cases))
    # whole-pipeline phase (Pipeline.v): only disagreements attributable to the layout passes are C11's
    vlib.coq_build(["theories/Pipeline.vo"])
    phase = pipeline_common.run_pipeline_phase(ctx, exe, 300 if ctx.tier == "quick" else 4000, 11)
    npipe = pipeline_common.report(ctx, phase, "C11") if not diffs else 0
    if diffs:
        diffs.sort(key=lambda d: len(cases[int(d[0][1:])]["text"]))
        cid, impl, m = diffs[0]
        c = cases[int(cid[1:])]
        vlib.violation(ctx, {"what": "layout validation of the real generator disagrees with the proven model (accept iff well-formed)",
                             "failing_input": {"syntax": c["syntax"], "text": c["text"], "adef": defs[cid][0]},
                             "implementation": impl, "model_and_spec": m, "message": res[cid].get("message"),
                             "disagreements": len(diffs)})
    elif not info["ok"] and not npipe:
        vlib.violation(ctx, {"broken": info["reason"], "theorem": "props/C11.v"}, no_input=True)
    if not (0.15 <= acc <= 0.9):
        ctx.log(f"warning: accepted ratio {acc:.2f} outside the sanity band")
    samples = [{"syntax": cases[i]["syntax"], "text": cases[i]["text"], "implementation": gen_common.canon_status(res[cases[i]["id"]]),
                "model": model.get(cases[i]["id"])} for i in (0, 1, len(cases) // 2)]
    vlib.write_evidence(ctx, info, {"evaluations": len(cases), "distinct_nontrivial": len(distinct), "rule": RULE,
                                    "samples": samples, "input_distribution": dict(hist), "accepted_ratio": round(acc, 3),
                                    "disagreements": len(diffs) + npipe,
                                    "pipeline_phase": {"evaluations": phase["evaluations"], "histogram": phase["histogram"], "rule": phase["rule"]}})


def replay(ctx, path):
    d = json.load(open(path))
    fi = d.get("failing_input")
    if not fi:
        run(ctx)
        return
    exe, err = gen_common.build_gen_runner(ctx)
    res = gen_common.run_gen(ctx, exe, [{"id": "r", "syntax": fi["syntax"], "text": fi["text"], "name": "Dev", "want": ["mir"]}])
    impl = gen_common.canon_status(res["r"])
    t = gen_common.mir_term(res["r"])
    m = gen_common.eval_model(ctx, ["Layout"], "layout_result", [("r", t)])["r"] if t else "no-mir"
    ctx.log("impl:", impl, "model:", m)
    if impl != m:
        vlib.violation(ctx, {"failing_input": fi, "implementation": impl, "model_and_spec": m})
