"""C01 — field bits occupy the documented physical positions."""
import json, os, random
import vlib
from checks import ops_common, gen_common

RULE = ("exhaustive geometry for the chosen buffer lengths: every in-bounds (s,e) with e-s <= carrier width x 4 "
        "order combinations x 10 carriers, random data/value per point, plus walking-one patterns over every "
        "buffer bit / value bit for lengths <= 3 (4 thorough); real device_driver::ops vs extracted Coq model; plus the "
        "generated level: 10 (thorough 60) compiled definitions with every (byte order, bit order) choice at object and global "
        "level and whole/partial-byte sizes, every getter/setter on random bytes vs Layout.v on the declared orders; "
        "distinct = (op, byte order, bit order, carrier, len, s mod 8, e mod 8, bytes spanned) classes")


def run(ctx):
    info = vlib.coq_gate(ctx)
    res, err = ops_common.correspondence(ctx, ctx.tier)
    if err:
        vlib.violation(ctx, {"broken": "correspondence harness could not run", "detail": err,
                             "theorem": "C01_load_layout/C01_store_layout"}, no_input=True)
        vlib.write_evidence(ctx, info, {"evaluations": 0, "distinct_nontrivial": 0, "rule": RULE, "samples": []})
        return
    stats, diffs = res
    if diffs:
        l, a, b = ops_common.minimal(diffs)
        vlib.violation(ctx, {"what": "ops.rs disagrees with the proven layout model on an in-bounds call",
                             "failing_input": ops_common.describe(l), "implementation": a, "model_and_spec": b,
                             "disagreements": len(diffs),
                             "replay_cmd": "./check C01 --replay <this file>"})
    elif not info["ok"]:
        vlib.violation(ctx, {"broken": info["reason"], "theorem": "props/C01.v",
                             "note": "proof obligation no longer checks; correspondence found no disagreement"},
                       no_input=True)
    # ---- generated level: the positions as reached through EMITTED accessors.  The generator picks the load/store function
    # and the byte order it instantiates it with from (byte order, bit order) of the field set (anchor: field_set_transform.rs);
    # definitions with every order combination, whole- and partial-byte sizes, own and global-default orders are compiled and
    # each getter / setter is compared on random bytes with Layout.v's reading of the DECLARED orders (the phase is C06's
    # l2_phase; here it stands for the clause "a field over bits [s,e) is read and written through exactly those positions")
    if not diffs and info["ok"]:
        from checks import c06
        exe, gerr = gen_common.build_gen_runner(ctx)
        if gerr:
            vlib.violation(ctx, {"broken": gerr}, no_input=True)
        else:
            # fixed family first: ONE field over a whole field set whose byte count is not a carrier size (3, 5, 6, 7 bytes), every
            # order combination, unsigned and signed — the bytes of the value land where the byte order says (seed C01-10
            # shortcut such fields through from_be_bytes on a front-aligned copy)
            import adef
            whole = [(sz, bo, bi, base) for sz in (24, 40, 48, 56) for bo in ("LE", "BE") for bi in ("LSB0", "MSB0") for base in ("uint", "int")]
            fam = []
            for k in range(0, len(whole), 4):
                objs = [adef.mk_register(["Ra", "Rb", "Rc", "Rd"][j], j, sz, [adef.mk_field("alpha", base, 0, sz)], byte_order=bo, bit_order=bi)
                        for j, (sz, bo, bi, base) in enumerate(whole[k:k + 4])]
                fam.append({"config": adef.mk_config(register_address_type="u16"), "objects": objs})
            if ctx.tier == "quick":
                fam = fam[ctx.seed % 2::2]
            n2, d2, sample2 = c06.l2_phase(ctx, exe, random.Random(ctx.seed + 101), 10 if ctx.tier == "quick" else 60, crate="c01l2",
                                           extra_defs=fam)
            stats["generated_level_queries"] = n2
            stats["evaluations"] += n2
            if d2:
                kind, what, detail, inp = d2[0]
                vlib.violation(ctx, {"what": "generated field-set accessors do not read/write the documented positions: " + what,
                                     "failing_input": inp or {"note": "see detail"}, "detail": detail, "disagreements": len(d2)},
                               no_input=(inp is None))
    if ctx.tier == "thorough" and info["ok"]:
        ok, out = vlib.coqchk("C01")
        stats["coqchk"] = out.strip().splitlines()[-6:]
        if not ok:
            vlib.violation(ctx, {"broken": "coqchk rejected the compiled proofs", "detail": out[-800:]}, no_input=True)
    vlib.write_evidence(ctx, info, {"evaluations": stats["evaluations"], "distinct_nontrivial": stats["distinct_nontrivial"],
                                    "rule": RULE, "samples": stats["samples"], "input_distribution": stats["histogram"],
                                    "exhaustive": True, "generated_level_queries": stats.get("generated_level_queries", 0), "disagreements": len(diffs), **({"coqchk": stats["coqchk"]} if "coqchk" in stats else {})},
                        assumptions=["64-bit host: the DedupCast rows for 16/32-bit pointers are proved in the model but not exercised"])


def replay(ctx, path):
    d = json.load(open(path))
    line = d.get("failing_input", {}).get("case_line")
    if not line:
        ctx.log("replay file names a broken obligation, not an input:", d.get("broken"))
        run(ctx)
        return
    model_exe, impl_exe, err = ops_common.build(ctx)
    if err:
        vlib.violation(ctx, {"broken": err}, no_input=True)
        return
    impl, model = ops_common.run_cases(ctx, model_exe, impl_exe, [line])
    ctx.log("case:", line, "impl:", impl, "model:", model)
    if impl != model:
        vlib.violation(ctx, {"failing_input": ops_common.describe(line), "implementation": impl[0], "model_and_spec": model[0]})
