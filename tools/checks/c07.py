"""C07 — generated enum conversions are total, invertible and never undefined.  L2 check.

Batches of generated enums are run through the REAL generator (harness/gen_runner: mir + facts + pretty), the
emitted drivers are compiled ONCE per batch into a scratch crate (tools/l2.py) whose main evaluates, for every
enum,   From / TryFrom on EVERY raw value its field can deliver, Into on every result, Default, and
Into -> From for every unit variant;   and for every field with a conversion (the enum's own field and the
fields in another register that REUSE the enum by name, narrower / equal / wider / try) the getter on EVERY bit
pattern of the field (debug build: overflow checks, debug assertions and the unsafe-precondition checks of
`unwrap_unchecked` on).  The Coq model (coq/theories/Enum.v: from_num / to_num / conv_choice / getter) is
evaluated by vm_compute on the MIR the real front end produced and yields the same run-length encoded tables.
Every mismatch is a VIOLATION with (definition, site, raw value); so is a panic / abort of the compiled code.
"""
import copy, collections, json, os, random, re, shutil, subprocess
import vlib, adef, l2
from checks import gen_common


def _big_stack():
    """coqc reads back result strings of ~100 KB (deeply nested constructors): lift the 8 MB stack limit for children"""
    import resource
    try:
        resource.setrlimit(resource.RLIMIT_STACK, (resource.RLIM_INFINITY, resource.RLIM_INFINITY))
    except (ValueError, OSError):
        pass

RULE = ("generated enums (full coverage implicit/explicit/permuted, partial coverage with try, default, catch-all, both, "
        "gaps; uint and int base; widths 1..10 quick / 1..16 thorough) each with reuse by name (Direct conversion `En`) on "
        "narrower / equal fields (unsafe getter), wider fields (plain into, only when a From exists) and try fields, in "
        "another register; plus the cfg-reuse family (two generated enums of one name under mutually exclusive cfgs, a third field "
        "reusing the name: 9 shapes, each built with the feature on and off, method / compiles / getter table vs Enum.c07_env_result); "
        "compiled once per batch (debug); main evaluates From/TryFrom + Into on EVERY raw value, "
        "Default, the unit-variant round trip and every getter on EVERY bit pattern; diffed against the Coq model "
        "evaluated on the same MIR (run-length encoded tables). distinct = distinct (width, base, try, variant list)")

VN = ["Aa", "Bb", "Cc", "Dd", "Ee", "Ff", "Gg", "Hh", "Ii", "Jj", "Kk", "Ll"]


def vname(i):
    if i < len(VN):
        return VN[i]
    a = "abcdefghijklmnopqrstuvwxyz"
    return "V" + a[(i // 676) % 26] + a[(i // 26) % 26] + a[i % 26]


def carrier_bits(w):
    b = 8
    while b < w:
        b *= 2
    return b


def numbers_of(values):
    out, last = [], None
    for v in values:
        n = v if isinstance(v, int) else (0 if last is None else last + 1)
        out.append(n)
        last = n
    return out


def gen_enum(rng, w, base, max_full):
    """-> (values, use_try) of an enum the generator accepts and rustc compiles (distinct numbers, in range)."""
    hi = 2 ** w - 1
    cb = carrier_bits(w)
    lit_hi = hi if base == "uint" else min(hi, 2 ** (cb - 1) - 1)
    for _ in range(200):
        kind = rng.choice(["full", "full", "partial", "partial", "default", "default", "catch", "catch", "both", "both", "mixed"])
        if kind == "full" and (w > max_full or lit_hi < hi):
            continue
        if kind == "full":
            order = list(range(hi + 1))
            style = rng.choice(["implicit", "explicit", "permuted", "mixed"])
            if style == "implicit":
                vals = [None] * (hi + 1)
            elif style == "explicit":
                vals = order
            elif style == "permuted":
                rng.shuffle(order)
                vals = order
            else:
                k = rng.randrange(0, hi + 1)
                vals = list(range(k, hi + 1)) + [0] + [None] * (k - 1) if k > 0 else [None] * (hi + 1)
            use_try = rng.random() < 0.3
        else:
            n = rng.choice([1, 1, 2, 3, 4, 6])
            vals = []
            for i in range(n):
                r = rng.random()
                if r < 0.45:
                    vals.append(None)
                elif r < 0.8:
                    vals.append(rng.choice([0, 1, 2, lit_hi // 2, max(0, lit_hi - 1), lit_hi]))
                elif base == "int":
                    vals.append(-rng.choice([1, 2, 2 ** (cb - 1)]))
                else:
                    vals.append(rng.randrange(0, lit_hi + 1))
            if kind in ("default", "both", "mixed"):
                vals.insert(rng.randrange(0, len(vals) + 1), "default")
            if kind in ("catch", "both") or (kind == "mixed" and rng.random() < 0.5):
                vals.insert(rng.randrange(0, len(vals) + 1), "catch_all")
            use_try = True if kind == "partial" else rng.random() < 0.3
        nums = numbers_of(vals)
        if len(set(nums)) != len(nums):
            continue                      # equal discriminants: D12 class, rustc rejects
        if any(n > lit_hi for n in nums):
            continue
        if base == "uint" and any(n < 0 for n in nums):
            continue
        if base == "int" and any(n < -2 ** (cb - 1) for n in nums):
            continue
        has_fb = any(v in ("default", "catch_all") for v in vals)
        covered = all(p in nums for p in range(hi + 1)) if len(nums) > hi else False
        if not use_try and not (has_fb or covered):
            continue
        return vals, use_try, has_fb, covered
    return [None, "default"], False, True, False


def gen_def(rng, wmax, max_full):
    w = rng.choice([x for x in [1, 1, 2, 2, 3, 3, 4, 5, 6, 7, 8, 8, 9, 10, 12, 13, 15, 16, 16] if x <= wmax])
    base = rng.choice(["uint", "uint", "uint", "int"])
    vals, use_try, has_fb, covered = gen_enum(rng, w, base, max_full)
    variants = [adef.mk_variant(vname(i), v) for i, v in enumerate(vals)]
    cb = carrier_bits(w)
    size = 8 * ((w + 7) // 8)
    ra = adef.mk_register("Ra", 0, size, [adef.mk_field("alpha", base, 0, w, conv=adef.mk_enum("En", variants, use_try=use_try))])
    objs = [ra]
    infallible = has_fb or covered
    same_carrier = [x for x in range(1, 17) if carrier_bits(x) == cb]
    reuse = []
    addr = 1

    def reg(name, fname, fw, conv):
        nonlocal addr
        r = adef.mk_register(name, addr, 8 * ((fw + 7) // 8), [adef.mk_field(fname, base, 0, fw, conv=conv)])
        addr += 1
        return r
    narrower = [x for x in same_carrier if x <= w]
    wider = [x for x in same_carrier if x > w]
    specs = []
    if infallible and rng.random() < 0.8:
        specs.append(("Rb", "beta", rng.choice(narrower), adef.mk_direct("En")))          # narrower or equal: unsafe getter
    if infallible and rng.random() < 0.4:
        specs.append(("Rc", "gamma", w, adef.mk_direct("En")))                              # equal width
    if has_fb and wider and rng.random() < 0.6:
        specs.append(("Rd", "delta", rng.choice(wider), adef.mk_direct("En")))             # wider: plain Into (From exists)
    if rng.random() < 0.6:
        specs.append(("Re", "eps", rng.choice(same_carrier if w > 12 or rng.random() < 0.7 else narrower), adef.mk_direct("En", use_try=True)))
    if wider and rng.random() < 0.3:
        specs.append(("Rf", "zeta", rng.choice(wider), adef.mk_direct("En", use_try=True)))  # wider with try: must stay a Result
    if specs and rng.random() < 0.4:
        # the reuses sit in the SAME field set as the defining field, after it (each field's method is its own choice)
        rng.shuffle(specs)
        pos = w
        for _, fname, fw, conv in specs:
            ra["fields"].append(adef.mk_field(fname, base, pos, pos + fw, conv=conv))
            reuse.append(fname)
            pos += fw
        ra["size_bits"] = 8 * ((pos + 7) // 8)
    else:
        for name, fname, fw, conv in specs:
            objs.append(reg(name, fname, fw, conv))
            reuse.append(fname)
    if rng.random() < 0.3:                 # own enum nested in a block: collect order / `super::` resolution unchanged
        objs = [adef.mk_block("Blk", [objs[0]], address_offset=64)] + objs[1:]
    return {"config": adef.mk_config(register_address_type="u8", default_byte_order="LE"), "objects": objs}, \
           {"w": w, "base": base, "try": use_try, "vals": vals}


# ---------------------------------------------------------------- Rust driver

MAIN_HEAD = r'''
use core::convert::TryFrom;
trait ShowErr { fn show(&self) -> String; }
impl<T: core::fmt::Display> ShowErr for ::device_driver::ConversionError<T> {
    fn show(&self) -> String { format!("Err({},{})", self.source, self.target) }
}
impl ShowErr for core::convert::Infallible { fn show(&self) -> String { "Err(infallible)".to_string() } }
fn show_res<V: core::fmt::Debug, E: ShowErr>(r: &Result<V, E>) -> String {
    match r { Ok(v) => format!("{:?}", v), Err(e) => e.show() }
}
'''


def field_list(d):
    """[(object name, field dict)] of every field with a conversion, in pre-order"""
    out = []
    for o, _ in adef.walk(d["objects"]):
        for _, fs in adef.field_sets(o):
            for f in fs:
                if f["conv"] is not None:
                    out.append((o["name"], f))
    return out


def rust_ty(base, w):
    return ("u" if base == "uint" else "i") + str(carrier_bits(w))


def site_code(mod, d, meta, facts, sites):
    """Rust statements for one module; appends (mod, kind, label) to sites, one per loop."""
    w, base = meta["w"], meta["base"]
    ty = rust_ty(base, w)
    full_signed = base == "int" and w == carrier_bits(w)
    lo, n = (-(2 ** (w - 1)), 2 ** w) if full_signed else (0, 2 ** w)
    en = [e for e in facts["enums"] if e["name"] == "En"][0]
    fallible = en["fallible"]
    code = ""

    def begin(kind, label):
        sid = len(sites)
        sites.append((mod, kind, label))
        return sid
    sid = begin("from", "En")
    conv = f"show_res(&<{mod}::En as TryFrom<{ty}>>::try_from(raw))" if fallible else f"format!(\"{{:?}}\", <{mod}::En as From<{ty}>>::from(raw))"
    back = (f"match <{mod}::En as TryFrom<{ty}>>::try_from(raw) {{ Ok(v) => {{ let b: {ty} = v.into(); b.to_string() }}, Err(_) => \"-\".to_string() }}"
            if fallible else f"{{ let b: {ty} = <{mod}::En as From<{ty}>>::from(raw).into(); b.to_string() }}")
    code += f'''
    if {sid} >= start && {sid} < stop {{
        println!("BEGIN {sid}");
        for k in 0..{n}i64 {{ let raw = ({lo}i64 + k) as {ty}; println!("{{}} {{}} {{}}", raw, {conv}, {back}); }}
        println!("END {sid}");
    }}'''
    sid = begin("misc", "En")
    code += f'''
    if {sid} >= start && {sid} < stop {{
        println!("BEGIN {sid}");'''
    if en.get("default"):
        code += f'\n        println!("D {{:?}}", <{mod}::En as Default>::default());'
    for v in en["variants"]:
        if not v["payload"]:
            vn = v["name"]
            rt = (f"show_res(&<{mod}::En as TryFrom<{ty}>>::try_from(n))" if fallible else f"format!(\"{{:?}}\", <{mod}::En as From<{ty}>>::from(n))")
            code += f'\n        {{ let n: {ty} = {mod}::En::{vn}.into(); println!("R {vn} {{}} {{}}", n, {rt}); }}'
    code += f'''
        println!("END {sid}");
    }}'''
    getters = {}
    for fsx in facts["field_sets"]:
        for g in fsx["getters"]:
            getters[(fsx["name"], g["name"])] = g
    for obj, f in field_list(d):
        g = getters[(obj, f["name"])]
        fw = f["end"] - f["start"]
        nbytes = (([o for o, _ in adef.walk(d["objects"]) if o["name"] == obj][0]["size_bits"]) + 7) // 8
        sid = begin("getter", f"{obj}.{f['name']}")
        call = f"fs.{f['name']}()"
        show = f"show_res(&{call})" if g["conv"] == "try_into" else f"format!(\"{{:?}}\", {call})"
        code += f'''
    if {sid} >= start && {sid} < stop {{
        println!("BEGIN {sid}");
        for p in 0..{2 ** fw}u64 {{
            let mut bytes = [0u8; {nbytes}];
            bytes.copy_from_slice(&((p as u128) << {f['start']}).to_le_bytes()[..{nbytes}]);
            let fs = {mod}::field_sets::{obj}::from(bytes);
            println!("{{}} {{}}", p, {show});
        }}
        println!("END {sid}");
    }}'''
    return code


def make_main(blocks):
    return MAIN_HEAD + '''
fn main() {
    let args: Vec<String> = std::env::args().collect();
    let start: usize = args.get(1).map(|s| s.parse().unwrap()).unwrap_or(0);
    let stop: usize = args.get(2).map(|s| s.parse().unwrap()).unwrap_or(usize::MAX);
''' + "\n".join(blocks) + "\n}\n"


# ---------------------------------------------------------------- canonicalisation of the driver's output

VAL = re.compile(r'^([A-Za-z0-9_]+)(?:\((-?\d+)\))?$')
ERR = re.compile(r'^Err\((-?\d+),([A-Za-z0-9_]+)\)$')


def tok(raw, s):
    m = ERR.match(s)
    if m:
        return f"Err(raw,{m.group(2)})" if int(m.group(1)) == raw else f"Err({m.group(1)},{m.group(2)})"
    m = VAL.match(s)
    if m:
        if m.group(2) is None:
            return m.group(1)
        return f"{m.group(1)}(raw)" if int(m.group(2)) == raw else f"{m.group(1)}({m.group(2)})"
    return "?" + s


def rle(pairs):
    """pairs: [(x, token)] with consecutive x"""
    runs = []
    for x, t in pairs:
        if runs and runs[-1][2] == t:
            runs[-1][1] = x
        else:
            runs.append([x, x, t])
    return ",".join(f"{a}..{b}:{t}" for a, b, t in runs)


def raw_of_pattern(base, w, p):
    if base == "int" and w == carrier_bits(w) and p >= 2 ** (w - 1):
        return p - 2 ** w
    return p


def show_enum_header(e):
    dv = (e.get("default") or {}).get("variant")
    vs = []
    for v in e["variants"]:
        s = f"{v['name']}={v['discriminant']}"
        if dv == v["name"]:
            s += ":default"
        if v.get("payload"):
            s += ":catch_all"
        vs.append(s)
    return f"{e['name']}/{e['base_type']}/{'try' if e['fallible'] else 'from'}{{{','.join(vs)}}}"


def impl_lines(d, meta, facts, out_by_site, my_sites):
    """the implementation's canonical lines (same format as Enum.c07_result) + per-line site ids"""
    en = [e for e in facts["enums"] if e["name"] == "En"][0]
    lines = []
    sid_from = [s for s, (m, k, l) in my_sites if k == "from"][0]
    sid_misc = [s for s, (m, k, l) in my_sites if k == "misc"][0]
    fr, into = [], []
    for ln in out_by_site.get(sid_from, []):
        a, b, c = ln.split(" ")
        raw = int(a)
        fr.append((raw, tok(raw, b)))
        into.append((raw, "nocompile" if c == "-" else ("raw" if int(c) == raw else c)))
    dflt, rt = "-", {}
    for ln in out_by_site.get(sid_misc, []):
        p = ln.split(" ")
        if p[0] == "D":
            dflt = tok(-1, p[1])
        elif p[0] == "R":
            rt[p[1]] = tok(int(p[2]), p[3])
    rts = ",".join(f"{v['name']}->{'-' if v['payload'] else rt.get(v['name'], '?')}" for v in en["variants"])
    lines.append((sid_from, f"enum {show_enum_header(en)} | {rle(fr)} | into: {rle(into)} | default={dflt} | {rts}"))
    getters = {}
    for fsx in facts["field_sets"]:
        for g in fsx["getters"]:
            getters[(fsx["name"], g["name"])] = g
    gsites = [(s, l) for s, (m, k, l) in my_sites if k == "getter"]
    for (obj, f), (sid, label) in zip(field_list(d), gsites):
        g = getters[(obj, f["name"])]
        fw = f["end"] - f["start"]
        pairs = []
        for ln in out_by_site.get(sid, []):
            a, b = ln.split(" ", 1)
            p = int(a)
            pairs.append((p, tok(raw_of_pattern(f["base"], fw, p), b)))
        lines.append((sid, f"{obj}.{f['name']} {g['conv']}:{f['conv']['name']} | {rle(pairs)}"))
    return lines


def first_diff(a, b):
    """first raw value / bit pattern at which two run-length tables differ"""
    def expand(t):
        out = []
        for run in t.split(","):
            m = re.match(r"^(-?\d+)\.\.(-?\d+):(.*)$", run)
            if m:
                out.append((int(m.group(1)), int(m.group(2)), m.group(3)))
        return out
    ra, rb = expand(a), expand(b)
    if not ra or not rb:
        return f"{a[:200]}  vs  {b[:200]}"
    x = min(ra[0][0], rb[0][0])
    end = max(ra[-1][1], rb[-1][1])

    def at(rs, v):
        for s0, e0, t in rs:
            if s0 <= v <= e0:
                return t
        return "(no value)"
    # runs are few: only run boundaries can start a difference
    cands = sorted({x} | {s0 for s0, _, _ in ra + rb} | {e0 + 1 for _, e0, _ in ra + rb})
    for v in cands:
        if v <= end and at(ra, v) != at(rb, v):
            return f"raw value {v}: implementation {at(ra, v)}, model {at(rb, v)}"
    return "(tables equal value by value)"


def parse_output(stdout):
    by_site, cur, complete = {}, None, set()
    for ln in stdout.splitlines():
        if ln.startswith("BEGIN "):
            cur = int(ln[6:])
            by_site[cur] = []
        elif ln.startswith("END "):
            complete.add(int(ln[4:]))
            cur = None
        elif cur is not None:
            by_site[cur].append(ln)
    return by_site, complete


def run_driver(ctx, name, nsites):
    """runs the driver; a crash (abort / panic) inside a site is recorded and the run resumes after it"""
    by_site, crashes = {}, []
    start = 0
    while start < nsites:
        rc, out, err = l2.run_bin(ctx, name, [str(start)], timeout=3000)
        bs, complete = parse_output(out)
        by_site.update(bs)
        if rc == 0:
            break
        broken = [s for s in bs if s not in complete]
        if not broken:
            crashes.append((None, None, f"rc={rc} {err[-400:]}"))
            break
        s = broken[0]
        last = bs[s][-1] if bs[s] else "(before the first value)"
        crashes.append((s, last, f"rc={rc} {err.strip()[-600:]}"))
        start = s + 1
    return by_site, crashes


# ---------------------------------------------------------------- rustc as the guard of the int full-width case

def int_full_width_probe(ctx, exe):
    """`int` field filling its carrier + enum listing 0..255 without fallback: the generator accepts it and emits
    the unchecked getter; C07_int_full_width_guard_necessary shows the model needs rustc's literal check here.
    Expect: rustc rejects the emitted code (literal out of range for i8)."""
    vs = [adef.mk_variant(vname(12 + i)) for i in range(256)]
    d = {"config": adef.mk_config(register_address_type="u8"), "objects": [
        adef.mk_register("Ra", 0, 8, [adef.mk_field("alpha", "int", 0, 8, conv=adef.mk_enum("En", vs))])]}
    res = gen_common.run_gen(ctx, exe, [{"id": "p", "syntax": "dsl", "text": adef.render(d, "dsl"), "name": "Dev", "want": ["pretty", "facts"]}], tag="probe")
    r = res["p"]
    if r.get("status") != "ok":
        return {"generator": gen_common.canon_status(r), "rustc": None}, None
    conv = [g["conv"] for fsx in r["facts"]["field_sets"] for g in fsx["getters"]]
    main = '''fn main() { for p in 0..=255u8 { let fs = m0::field_sets::Ra::from([p]); println!("{} {:?}", p, fs.alpha()); } }'''
    l2.write_crate(ctx, "c07probe", {"m0": r["pretty"]}, main)
    ok, out = l2.build(ctx, "c07probe")
    info = {"generator": "ok", "getter_conv": conv, "rustc_accepts": ok,
            "rustc_errors": len(re.findall(r"literal out of range for `i8`", out))}
    bad = None
    if ok:   # unexpected: then the unchecked getter is live; run it on every pattern
        rc, o, e = l2.run_bin(ctx, "c07probe")
        info["run_rc"] = rc
        if rc != 0 or len(o.splitlines()) != 256:
            bad = {"what": "int field at full carrier width: emitted code compiles and the unchecked getter misbehaves",
                   "failing_input": {"syntax": "dsl", "text": adef.render(d, "dsl")}, "stderr": e[-600:], "stdout_tail": o[-300:]}
    l2.cleanup(ctx, "c07probe")
    return info, bad


def wide_reuse_probe(ctx, exe):
    """A TryFrom-only enum (total by coverage on 2 bits) named on a WIDER field without `try`.  Model: plain `into`
    (conv_choice), which needs a From that does not exist, so rustc rejects the crate; the unchecked getter must
    never be chosen here.  If the emitted code compiles, the getter is run on every pattern."""
    V = adef.mk_variant
    d = {"config": adef.mk_config(register_address_type="u8"), "objects": [
        adef.mk_register("Ra", 0, 8, [adef.mk_field("alpha", "uint", 0, 2, conv=adef.mk_enum("En", [V("Aa"), V("Bb"), V("Cc"), V("Dd")]))]),
        adef.mk_register("Rd", 1, 8, [adef.mk_field("delta", "uint", 0, 3, conv=adef.mk_direct("En"))])]}
    text = adef.render(d, "dsl")
    res = gen_common.run_gen(ctx, exe, [{"id": "p", "syntax": "dsl", "text": text, "name": "Dev", "want": ["pretty", "facts", "mir"]}], tag="wprobe")
    r = res["p"]
    if r.get("status") != "ok":
        return {"generator": gen_common.canon_status(r)}, {"what": "wide-reuse probe definition rejected", "failing_input": {"syntax": "dsl", "text": text}}
    model = gen_common.eval_model(ctx, ["Enum"], "c07_result", [("p", gen_common.mir_term(r))], tag="wprobe_model")["p"]
    mline = [ln for ln in model.split("\n") if ln.startswith("Rd.delta ")][0]
    conv = [g["conv"] for fsx in r["facts"]["field_sets"] if fsx["name"] == "Rd" for g in fsx["getters"]][0]
    info = {"generator": "ok", "getter_conv": conv, "model": mline}
    bad = None
    if mline.split(" ")[1] != f"{conv}:En":
        bad = {"what": "conversion method chosen for a wider field naming a TryFrom-only enum differs from the model",
               "failing_input": {"syntax": "dsl", "text": text}, "implementation": conv, "model": mline}
    main = MAIN_HEAD + '''fn main() { println!("BEGIN 0"); for p in 0..8u8 { let fs = m0::field_sets::Rd::from([p]); println!("{} {:?}", p, fs.delta()); } println!("END 0"); }'''
    l2.write_crate(ctx, "c07wprobe", {"m0": r["pretty"]}, main)
    ok, out = l2.build(ctx, "c07wprobe")
    info["rustc_accepts"] = ok
    if ok:
        by_site, crashes = run_driver(ctx, "c07wprobe", 1)
        got = rle([(int(ln.split(" ")[0]), tok(int(ln.split(" ")[0]), ln.split(" ")[1])) for ln in by_site.get(0, [])])
        info["getter_table"] = got
        bad = {"what": "a TryFrom-only enum reused on a WIDER field compiles to a getter without Result" +
                       (": it aborts (unchecked unwrap of an Err = undefined behaviour)" if crashes else ""),
               "failing_input": {"syntax": "dsl", "text": text}, "implementation": f"{conv}:En | {got}", "model": mline,
               "crash": [{"last_value_printed_before_the_crash": c[1], "first_failing_raw_value": (int(c[1].split(" ")[0]) + 1 if c[1] and c[1][0].isdigit() else 0),
                          "stderr": c[2]} for c in crashes]}
    l2.cleanup(ctx, "c07wprobe")
    return info, bad


def cross_class_reuse_probe(ctx, exe):
    """A generated enum converts from and to the integer type of the field it is DEFINED on only.  Naming it on a field of a
    bigger integer class (10 bits -> u16) has no conversion to use: rustc rejects the crate (E0277), with `try` (TryFrom<u16>)
    and, for an enum with a catch-all, without (From<u16>).  If the crate compiles, the getter is run on raw values >= 256:
    whatever it returns, the bits above the enum's integer were dropped before the conversion saw them (seed C07-11 loaded
    such a field in the enum's integer type)."""
    V = adef.mk_variant
    d = {"config": adef.mk_config(register_address_type="u8", default_byte_order="LE"), "objects": [
        adef.mk_register("Ra", 0, 8, [adef.mk_field("alpha", "uint", 0, 2, conv=adef.mk_enum("Mode", [V("Off"), V("Slow")], use_try=True)),
                                      adef.mk_field("beta", "uint", 4, 8, conv=adef.mk_enum("Kind", [V("Ka"), V("Other", "catch_all")]))]),
        adef.mk_register("Rw", 1, 32, [adef.mk_field("widemode", "uint", 6, 16, conv=adef.mk_direct("Mode", True)),
                                       adef.mk_field("widekind", "uint", 16, 26, conv=adef.mk_direct("Kind"))])]}
    text = adef.render(d, "dsl")
    res = gen_common.run_gen(ctx, exe, [{"id": "p", "syntax": "dsl", "text": text, "name": "Dev", "want": ["pretty"]}], tag="xprobe")
    r = res["p"]
    if r.get("status") != "ok":
        return {"generator": gen_common.canon_status(r)}, None        # rejected by the generator: nothing is emitted
    main = MAIN_HEAD + ('fn main() { let fs = m0::field_sets::Rw::from([0x40, 0x40, 0x00, 0x01]); '
                        'println!("widemode(0x101) = {:?}", fs.widemode().map(|_| 0).map_err(|_| 1)); println!("widekind(0x100) = {:?}", fs.widekind()); }')
    l2.write_crate(ctx, "c07xprobe", {"m0": r["pretty"]}, main)
    ok, out = l2.build(ctx, "c07xprobe")
    info = {"generator": "ok", "rustc_accepts": ok}
    bad = None
    if ok:
        rc, so, se = l2.run_bin(ctx, "c07xprobe")
        info["output"] = so.strip().splitlines()
        bad = {"what": "a generated enum named on a field of a BIGGER integer class type-checks: the getter converts a truncated raw value "
                       "(10-bit field, enum over u8)", "failing_input": {"syntax": "dsl", "text": text},
               "implementation": so.strip()[:400], "model": "no conversion from u16 exists for an enum generated over u8: the crate must not compile"}
    l2.cleanup(ctx, "c07xprobe")
    return info, bad


def cfg_def(enum_a, enum_b, zz="zz: uint as En = 0..2", size_c=8):
    """two generated enums named En under mutually exclusive cfgs (Ra.xx with feature "a", Rb.yy without) and a third,
    ungated register Rc whose field zz reuses the name"""
    return ('config { type RegisterAddressType = u8; }\n'
            '#[cfg(feature = "a")]\nregister Ra {\n    const ADDRESS = 0;\n    const SIZE_BITS = 8;\n    xx: ' + enum_a + '\n},\n'
            '#[cfg(not(feature = "a"))]\nregister Rb {\n    const ADDRESS = 1;\n    const SIZE_BITS = 8;\n    yy: ' + enum_b + '\n},\n'
            'register Rc {\n    const ADDRESS = 2;\n    const SIZE_BITS = %d;\n    %s\n}\n' % (size_c, zz))


FULL4 = "uint as enum En { Aa, Bb, Cc, Dd } = 0..2"
CFG_WITNESS = cfg_def(FULL4, "uint as try enum En { Aa } = 0..2")        # the D18 witness
CFG_FAMILY = [   # (tag, text, width of zz)
    ("d18_witness", CFG_WITNESS, 2),
    ("fallible_first", cfg_def("uint as try enum En { Aa } = 0..2", FULL4), 2),
    ("both_infallible", cfg_def(FULL4, "uint as enum En { Aa, Rest = catch_all } = 0..2"), 2),
    ("second_narrower", cfg_def(FULL4, "uint as enum En { Aa, Rest = catch_all } = 0..1"), 2),
    ("default_then_fallible", cfg_def("uint as enum En { Aa, Dflt = default } = 0..2", "uint as try enum En { Aa } = 0..2"), 2),
    ("fallible_then_default", cfg_def("uint as try enum En { Aa, Bb } = 0..2", "uint as enum En { Aa, Dflt = default } = 0..2"), 2),
    ("reuse_with_try", cfg_def(FULL4, "uint as try enum En { Aa } = 0..2", zz="zz: uint as try En = 0..2"), 2),
    ("reuse_wider", cfg_def("uint as enum En { Aa, Rest = catch_all } = 0..2", "uint as enum En { Aa, Bb, Dflt = default } = 0..2",
                            zz="zz: uint as En = 0..3"), 3),
    ("three_bit_both", cfg_def("uint as enum En { Aa, Rest = catch_all } = 0..3", "uint as enum En { Bb = 5, Dflt = default } = 0..4",
                               zz="zz: uint as En = 0..3"), 3),
]


def d18_open():
    return [f for f in vlib.load_known_findings("C07") if f.get("id") == "D18"]


def cfg_reuse_family(ctx, exe):
    """D18 (found by this check, repaired by /repo 6916a8d): generated enums may share a name under different cfgs; a
    third field reuses the name.  The method choice is cfg-blind; since the repair it looks at ALL enums of the name
    and takes the unchecked conversion only if every one is Infallible for the field's width (Enum.conv_choice).
    Every member of the family is built TWICE (feature "a" on / off) and compared with Enum.c07_env_result of that
    build: conversion method of zz; whether the crate compiles (model: no `nocompile` token in any getter line of
    the build — Into on an enum without From is the model's NoFromImpl); and, when it compiles, the table of zz() over
    every bit pattern.  An abort at unwrap_unchecked (debug build: the unsafe-precondition check) is UB = VIOLATION.
    Returns (info, [violations])."""
    cases = [{"id": f"f{i}", "syntax": "dsl", "text": text, "name": "Dev", "want": ["pretty", "facts", "mir"]}
             for i, (tag, text, w) in enumerate(CFG_FAMILY)]
    res = gen_common.run_gen(ctx, exe, cases, tag="cfam")
    info, viol = {"members": {}}, []
    usable = []
    for c, (tag, text, w) in zip(cases, CFG_FAMILY):
        r = res[c["id"]]
        fi = {"syntax": "dsl", "text": text, "family_member": tag}
        if r.get("status") != "ok" or not r.get("facts") or not r.get("pretty"):
            info["members"][tag] = {"generator": gen_common.canon_status(r)}
            viol.append({"what": "cfg-reuse family: a definition the property accepts was not accepted by the generator",
                         "failing_input": fi, "implementation": gen_common.canon_status(r), "message": r.get("message")})
            continue
        for fsn, gn, en, raw in unchecked_getter_oracle(r["facts"]):
            viol.append({"what": f"getter {fsn}::{gn} converts with unwrap_unchecked but a generated enum named {en} (present in some build) has no "
                                 f"conversion for raw value {raw}: undefined behaviour in that build",
                         "failing_input": dict(fi, raw_value=raw)})
        usable.append((c, tag, text, w, r))
    if d18_open() and usable:
        conv0 = [g["conv"] for fsx in usable[0][4]["facts"]["field_sets"] if fsx["name"] == "Rc" for g in fsx["getters"]][0]
        if conv0 != "unsafe_into":
            viol.append({"what": "D18 is listed open in KNOWN_FINDINGS.jsonl but the generator no longer chooses the unchecked conversion for the "
                                 "witness (repaired by 6916a8d): set D18 to \"fixed\"", "failing_input": {"syntax": "dsl", "text": CFG_WITNESS}})
    for build, feats in (("without_a", []), ("with_a", ["a"])):
        terms, on_terms = [], {}
        for c, tag, text, w, r in usable:
            cfgs = sorted({x.replace('\\"', '"') for x in re.findall(r'value: Some\(\s*"((?:[^"\\]|\\.)*)"', r["mir"])})
            on = [x for x in cfgs if x.startswith("not") == (build == "without_a")]
            on_terms[c["id"]] = "[" + "; ".join(vlib.coq_string(x) for x in on) + "]"
        # the set of predicates that hold is the same for every member (same two cfg strings): one model call per build
        groups = collections.defaultdict(list)
        for c, tag, text, w, r in usable:
            groups[on_terms[c["id"]]].append((c["id"], gen_common.mir_term(r)))
        model = {}
        for on_term, lst in groups.items():
            model.update(gen_common.eval_model(ctx, ["Enum"], f"c07_env_result {on_term}", lst, tag=f"cfam_{build}_model"))
        plan = []
        for c, tag, text, w, r in usable:
            m = model.get(c["id"]) or ""
            lines = m.split("\n")
            mline = ([ln for ln in lines if ln.startswith("Rc.zz ")] or [m])[0]
            conv = [g["conv"] for fsx in r["facts"]["field_sets"] if fsx["name"] == "Rc" for g in fsx["getters"]][0]
            expect_compile = not any("nocompile" in ln.split(" | ")[-1] for ln in lines)
            plan.append({"c": c, "tag": tag, "text": text, "w": w, "r": r, "mline": mline, "conv": conv, "expect": expect_compile})
            info["members"].setdefault(tag, {})[build] = {"model": mline, "getter_conv": conv, "model_compiles": expect_compile}
            if mline.split(" ")[1:2] != [f"{conv}:En"]:
                viol.append({"what": "cfg-reuse family: conversion method of the reusing getter differs from the model (Enum.conv_choice: unchecked only "
                                     "if EVERY generated enum of that name is Infallible for the field's width)",
                             "failing_input": {"syntax": "dsl", "text": text, "family_member": tag, "build": build},
                             "implementation": f"Rc.zz {conv}:En", "model": mline})

        def crate(members, name, check_only):
            blocks, mods = [], {}
            for k, pl in enumerate(members):
                show = "show_res(&fs.zz())" if pl["conv"] == "try_into" else 'format!("{:?}", fs.zz())'
                for pt in range(1 << pl["w"]):
                    site = k * 8 + pt
                    blocks.append(f'    if {site} >= start && {site} < stop {{ println!("BEGIN {site}"); let fs = m{k}::field_sets::Rc::from([{pt}u8]); '
                                  f'println!("{pt} {{}}", {show}); println!("END {site}"); }}')
                mods[f"m{k}"] = pl["r"]["pretty"]
            l2.write_crate(ctx, name, mods, make_main(blocks), features=["a"])
            return l2.build(ctx, name, check_only=check_only, cargo_features=feats or None)

        def run_members(members, name):
            """-> {tag: (table, crashed patterns, stderr)}"""
            by_site, crashes = run_driver(ctx, name, 8 * len(members))
            crashed = {s_: e_ for s_, _, e_ in crashes if s_ is not None}
            out = {}
            for k, pl in enumerate(members):
                pairs, bad = [], []
                for pt in range(1 << pl["w"]):
                    site = k * 8 + pt
                    if site in crashed or not by_site.get(site):
                        pairs.append((pt, "UB"))
                        bad.append(pt)
                    else:
                        pairs.append((pt, tok(pt, by_site[site][0].split(" ", 1)[1])))
                out[pl["tag"]] = (rle(pairs), bad, (crashed.get(k * 8 + bad[0]) or "")[-500:] if bad else "")
            return out

        def judge_run(pl, table, bad, err):
            fi = {"syntax": "dsl", "text": pl["text"], "family_member": pl["tag"], "build": build}
            impl_line = f"Rc.zz {pl['conv']}:En | {table}"
            info["members"][pl["tag"]][build]["getter_table"] = table
            if bad:
                viol.append({"what": "getter without Result reaches the unchecked unwrap of an Err (abort in the debug build = undefined behaviour): an "
                                     "enum generated on one field is reused by name on another while a same-named enum exists under another cfg "
                                     "(defect D18 is back)",
                             "failing_input": dict(fi, raw_value=bad[0]), "implementation": impl_line, "model": pl["mline"], "stderr": err})
            elif impl_line != pl["mline"]:
                viol.append({"what": "cfg-reuse family: compiled getter table differs from the model of that build (Enum.getter_env)" +
                                     ("" if pl["expect"] else " — the model says this build does not compile (Into on an enum without From)"),
                             "failing_input": fi, "implementation": impl_line, "model": pl["mline"]})

        good = [pl for pl in plan if pl["expect"]]
        if good:
            ok, out = crate(good, "c07cfam", False)
            if ok:
                for pl in good:
                    info["members"][pl["tag"]][build]["rustc_accepts"] = True
                for tag, (table, bad, err) in run_members(good, "c07cfam").items():
                    judge_run([pl for pl in good if pl["tag"] == tag][0], table, bad, err)
            else:
                failing = sorted({int(x) for x in re.findall(r"--> src/m(\d+)\.rs", out)})
                for k in failing or range(len(good)):
                    pl = good[k]
                    info["members"][pl["tag"]][build]["rustc_accepts"] = False
                    mm = re.search(r"(error[^\n]*\n\s*--> src/m%d\.rs[^\n]*\n(?:[^\n]*\n){0,10})" % k, out)
                    viol.append({"what": "cfg-reuse family: the emitted code does not compile in this build although the model's getters all compile",
                                 "failing_input": {"syntax": "dsl", "text": pl["text"], "family_member": pl["tag"], "build": build},
                                 "rustc": mm.group(1) if mm else out[-1200:], "model": pl["mline"]})
            l2.cleanup(ctx, "c07cfam")
        for pl in [pl for pl in plan if not pl["expect"]]:
            ok, out = crate([pl], "c07cfam1", True)
            info["members"][pl["tag"]][build]["rustc_accepts"] = ok
            if not ok:
                if "E0277" not in out or "From<" not in out:
                    viol.append({"what": "cfg-reuse family: the build does not compile, as the model says, but not for the missing From impl",
                                 "failing_input": {"syntax": "dsl", "text": pl["text"], "family_member": pl["tag"], "build": build}, "rustc": out[-1200:]})
            else:
                # the model says `Into` on an enum without From (does not compile); it compiles: build it and look at what the getter does
                ok2, out2 = crate([pl], "c07cfam1", False)
                if ok2:
                    table, bad, err = run_members([pl], "c07cfam1")[pl["tag"]]
                    judge_run(pl, table, bad, err)
                else:
                    viol.append({"what": "cfg-reuse family: cargo check passes but cargo build fails", "rustc": out2[-800:],
                                 "failing_input": {"syntax": "dsl", "text": pl["text"], "family_member": pl["tag"], "build": build}})
            l2.cleanup(ctx, "c07cfam1")
    info["d18_status"] = "open" if d18_open() else "not open (fixed: an unchecked getter that can reach an Err in some build is a violation)"
    return info, viol


def numbering_probe(ctx, exe, defs, rng):
    """'converting a raw number yields the variant WITH THAT NUMBER': the numbers are those of the DEFINITION (explicit
    ones kept, everything else predecessor + 1 in declaration order).  The model sees the MIR of the real front end, so a
    front end that loses the declaration order is invisible to it; here the emitted discriminants (token-stream facts)
    are compared with the numbering computed from the ABSTRACT definition, in all four syntaxes, with the first variant
    of every other definition in the manifest's extended form (a description) ahead of short-form variants."""
    cases, want = [], {}
    for i, (d, meta) in enumerate(defs):
        d = copy.deepcopy(d)
        nums, last = [], None
        for v in meta["vals"]:
            n = v if isinstance(v, int) else (0 if last is None else last + 1)
            nums.append(n)
            last = n
        for o, _ in adef.walk(d["objects"]):
            for _, fields in adef.field_sets(o):
                for f in fields:
                    c = f.get("conv")
                    if c and c["type"] == "enum" and i % 2 == 0 and c["variants"]:
                        c["variants"][0]["doc"] = "first"
        for syn in ("dsl", "json", "yaml", "toml"):
            cid = f"n{i}{syn}"
            cases.append({"id": cid, "syntax": syn, "text": adef.render(d, syn, rng), "name": "Dev", "want": ["facts"]})
            want[cid] = {vname(k).lower().replace("_", ""): n for k, n in enumerate(nums)}
    res = gen_common.run_gen(ctx, exe, cases, tag="numprobe")
    viol, n = [], 0
    for c in cases:
        r = res[c["id"]]
        if r.get("status") != "ok" or not r.get("facts"):
            viol.append({"what": "a definition accepted as DSL in the main phase is not accepted in this rendering",
                         "failing_input": {"syntax": c["syntax"], "text": c["text"]}, "implementation": gen_common.canon_status(r),
                         "message": r.get("message")})
            continue
        ens = [e for e in r["facts"].get("enums", []) if e["name"] == "En"]
        if len(ens) != 1:
            viol.append({"what": f"{len(ens)} generated enums named En", "failing_input": {"syntax": c["syntax"], "text": c["text"]}})
            continue
        got = {v["name"].lower().replace("_", ""): int(str(v["discriminant"]).replace(" ", "")) for v in ens[0]["variants"]}
        n += len(got)
        if got != want[c["id"]]:
            viol.append({"what": "the emitted discriminants are not the definition's numbering (explicit numbers kept, otherwise "
                                 "predecessor + 1 in declaration order): a raw number converts to another variant than the one declared with it",
                         "failing_input": {"syntax": c["syntax"], "text": c["text"]}, "implementation": got, "expected": want[c["id"]]})
    return n, viol[:3]


# ---------------------------------------------------------------- the check

def run_batch(ctx, exe, defs, name, keep=False, depth=0):
    """defs: list of (adef, meta). Returns (lines compared, violations list, stats)"""
    rng = random.Random(ctx.seed + 5)
    cases = [{"id": f"m{i}", "syntax": "dsl", "text": adef.render(d, "dsl", rng), "name": "Dev", "want": ["mir", "facts", "pretty"]}
             for i, (d, meta) in enumerate(defs)]
    res = gen_common.run_gen(ctx, exe, cases, tag=name)
    violations, stats = [], collections.Counter()
    mods, blocks, sites, site_range, terms = {}, [], [], {}, []
    for i, ((d, meta), c) in enumerate(zip(defs, cases)):
        r = res[c["id"]]
        if r.get("status") != "ok" or not r.get("facts") or not r.get("pretty"):
            violations.append({"what": "a definition built to be accepted was not (generator status / facts)", "failing_input": {"syntax": "dsl", "text": c["text"]},
                               "implementation": gen_common.canon_status(r), "message": r.get("message")})
            continue
        for fsn, gn, en, raw in unchecked_getter_oracle(r["facts"]):
            if not any(x.get("cfg") for e in r["facts"].get("enums", []) for x in e["from_arms"]):
                violations.append({"what": f"getter {fsn}::{gn} converts with unwrap_unchecked but enum {en} has no conversion for raw value {raw}",
                                   "failing_input": {"syntax": "dsl", "text": c["text"], "raw_value": raw}})
        mod = f"m{i}"
        first = len(sites)
        blocks.append(site_code(mod, d, meta, r["facts"], sites))
        site_range[i] = (first, len(sites))
        mods[mod] = r["pretty"]
        terms.append((c["id"], gen_common.mir_term(r)))
    # small shards: one 2^16-value definition costs seconds, so spread them over the cores
    model = vlib.coq_eval_strings(ctx, gen_common.PREAMBLE.format(mods="Enum"), [(i, f"c07_result ({t})") for i, t in terms],
                                  shard_size=6, tag=name + "_model")
    l2.write_crate(ctx, name, mods, make_main(blocks))
    ok, out = l2.build(ctx, name)
    if not ok:
        # isolate the definitions whose emitted code rustc rejects, report the smallest, go on with the others
        failing = sorted({int(x) for x in re.findall(r"--> src/m(\d+)\.rs", out)})
        if not failing or depth > 0:
            m = re.search(r"(error[^\n]*\n[^\n]*-->[^\n]*\n(?:[^\n]*\n){0,8})", out)
            violations.append({"what": "the batch of generated drivers does not compile", "rustc": (m.group(1) if m else out[-1500:])})
            l2.cleanup(ctx, name)
            return 0, violations, stats
        for i in failing:
            m = re.search(r"(error[^\n]*\n\s*--> src/m%d\.rs[^\n]*\n(?:[^\n]*\n){0,10})" % i, out)
            violations.append({"what": "rustc rejects the code emitted for a definition the generator accepted (model: it compiles)",
                               "failing_input": {"syntax": "dsl", "text": cases[i]["text"]}, "rustc": m.group(1) if m else "",
                               "model": model.get(cases[i]["id"])})
        l2.cleanup(ctx, name)
        rest = [x for i, x in enumerate(defs) if i not in failing]
        nl, v2, st2 = run_batch(ctx, exe, rest, name + "r", keep=keep, depth=depth + 1)
        return nl, violations + v2, st2
    by_site, crashes = run_driver(ctx, name, len(sites))
    for s, last, err in crashes:
        if s is None:
            violations.append({"what": "driver died outside any site", "stderr": err})
            continue
        mod, kind, label = sites[s]
        i = int(mod[1:])
        violations.append({"what": f"compiled generated code aborted / panicked in {kind} {label} (undefined-behaviour symptom)",
                           "failing_input": {"syntax": "dsl", "text": cases[i]["text"]}, "site": f"{kind} {label}",
                           "last_value_printed_before_the_crash": last, "stderr": err, "model": model.get(cases[i]["id"])})
    nlines = 0
    for i, ((d, meta), c) in enumerate(zip(defs, cases)):
        if i not in site_range:
            continue
        a, b = site_range[i]
        my_sites = [(s, sites[s]) for s in range(a, b)]
        il = impl_lines(d, meta, res[c["id"]]["facts"], by_site, my_sites)
        ml = (model.get(c["id"]) or "").split("\n")
        stats["values"] += sum(len(by_site.get(s, [])) for s in range(a, b))
        stats["w%d" % meta["w"]] += 1
        stats["base_" + meta["base"]] += 1
        stats["try" if meta["try"] else "nontry"] += 1
        for sid, line in il[1:]:
            stats["getter_" + line.split(" ")[1].split(":")[0]] += 1
        crashed = {s for s, _, _ in crashes}
        if (model.get(c["id"]) or "").startswith("<<COQ-ERROR"):
            if not stats["model_errors"]:
                violations.append({"what": "evaluating the Coq model failed (harness problem, not a verdict)", "model_output": model.get(c["id"])[:800]})
            stats["model_errors"] += 1
            continue
        if len(ml) != len(il):
            violations.append({"what": "model and implementation list different conversions", "failing_input": {"syntax": "dsl", "text": c["text"]},
                               "implementation": [x for _, x in il], "model": ml})
            continue
        for (sid, line), mline in zip(il, ml):
            nlines += 1
            if sid in crashed:
                continue
            if line != mline:
                ip, mp = line.split(" | "), mline.split(" | ")
                where = next((k for k, (x, y) in enumerate(zip(ip, mp)) if x != y), 0)
                violations.append({"what": "compiled enum conversion differs from the proven model",
                                   "failing_input": {"syntax": "dsl", "text": c["text"]},
                                   "site": ip[0], "first_difference (implementation vs model)": first_diff(ip[where], mp[where]) if where < len(ip) and where < len(mp) else "",
                                   "implementation": line[:3000], "model": mline[:3000]})
    if not keep:
        l2.cleanup(ctx, name)
    return nlines, violations, stats


def miri_subset(ctx, exe, rng):
    """thorough tier: the unsafe getters of a few small definitions under Miri (skipped if Miri cannot run offline)"""
    defs = []
    while len(defs) < 6:
        d, meta = gen_def(rng, 5, 5)
        if not meta["try"]:
            defs.append((d, meta))
    nl, viol, stats = run_batch(ctx, exe, defs, "c07miri", keep=True)
    if viol:
        l2.cleanup(ctx, "c07miri")
        return {"ran": False, "why": "debug run of the subset already failed"}, viol
    d = l2.crate_dir(ctx, "c07miri")
    env = dict(os.environ, CARGO_TARGET_DIR=os.path.join(vlib.CACHE, "target-miri"), CARGO_NET_OFFLINE="true",
               MIRIFLAGS="-Zmiri-disable-isolation", RUSTFLAGS=f"--cfg {vlib.GUARD} -Awarnings")
    try:
        p = subprocess.run(["cargo", "+nightly", "miri", "run", "--offline"], cwd=d, env=env, stdout=subprocess.PIPE, stderr=subprocess.PIPE, timeout=900)
    except subprocess.TimeoutExpired:
        l2.cleanup(ctx, "c07miri")
        return {"ran": False, "why": "cargo miri run did not finish in 900 s"}, []
    err = p.stderr.decode(errors="replace")
    out = p.stdout.decode(errors="replace")
    l2.cleanup(ctx, "c07miri")
    if p.returncode != 0 and "Undefined Behavior" not in err:
        return {"ran": False, "why": "cargo +nightly miri run failed offline: " + err.strip()[-300:]}, []
    if "Undefined Behavior" in err:
        return {"ran": True, "ub": True}, [{"what": "Miri reports undefined behaviour in a generated unsafe getter", "miri": err[-1500:]}]
    bs, complete = parse_output(out)
    return {"ran": True, "ub": False, "sites": len(complete), "values": sum(len(v) for v in bs.values())}, []


def unchecked_getter_oracle(facts):
    """The property itself, on the real token stream: every getter that converts with `unwrap_unchecked` (conv
    unsafe_into) must target a generated enum whose conversion is defined for EVERY bit pattern the field can hold:
    an `impl From` (wildcard arm to a catch-all/default), or arms for all raw values 0..2^w-1.
    Generated enums may share a name under different cfgs: the demand is made of EVERY same-named enum that can be
    present in a build in which the getter is present (all of them, unless their cfg atoms contradict: X vs not(X)).
    Returns a list of (field set, getter, enum, first uncovered raw value)."""
    enums = collections.defaultdict(list)      # generated enums may share a name under different cfgs: ALL of them count
    for e in facts.get("enums", []):
        enums[e["name"]].append(e)
    bad = []
    for fs in facts.get("field_sets", []):
        for g in fs["getters"]:
            if g["conv"] != "unsafe_into":
                continue
            en = g["ret"].split("::")[-1]
            if not enums.get(en):
                bad.append((fs["name"], g["name"], en, "no generated enum of that name"))
                continue
            w = g["end"] - g["start"]
            signed = g["carrier"].startswith("i")
            cb = int(g["carrier"][1:])
            gate = set((fs.get("cfg") or []) + (g.get("cfg") or []))
            for e in enums[en]:
                ecfg = set(e.get("cfg") or [])
                if any(("not(%s)" % a) in ecfg for a in gate) or any(("not(%s)" % a) in gate for a in ecfg):
                    continue           # getter and enum never exist in the same build (X against not(X))
                wild = [a for a in e["from_arms"] if a["pattern"] == "wild"]
                if wild and not str(wild[0].get("target", "")).startswith("err"):
                    continue
                if any(a["pattern"] is None for a in e["from_arms"]):
                    # an arm that is neither one integer literal nor the wildcard (a range, a guard, ...): the emitter is
                    # known to write one literal arm per variant plus the fallback; anything else is not shown total here
                    bad.append((fs["name"], g["name"], en, "conversion arm with a pattern that is not one integer literal"))
                    break
                listed = {int(a["pattern"]) for a in e["from_arms"] if a["pattern"] != "wild" and not a.get("cfg")}
                if w > 16:
                    bad.append((fs["name"], g["name"], en, f"fallible conversion on a {w}-bit field"))
                    break
                miss = None
                for raw in range(1 << w):
                    v = raw - (1 << cb) if (signed and w == cb and raw >= (1 << (cb - 1))) else raw
                    if v not in listed:
                        miss = raw
                        break
                if miss is not None:
                    bad.append((fs["name"], g["name"], en, miss))
                    break
    return bad


def must_reject_probe(ctx, exe):
    """Non-try enums with neither default nor catch-all that miss at least one bit pattern (every choice of the missing
    value for widths 1..3, gaps and one-short lists for width 4): the property demands rejection. If the generator
    accepts one, the unchecked getter it emits is undefined for the missing pattern."""
    V = adef.mk_variant
    defs = []
    for w in (1, 2, 3, 4):
        full = list(range(1 << w))
        shapes = [[x for x in full if x != miss] for miss in (full if w <= 3 else [0, 7, 15])]
        shapes += [full[:-2], full[1:]] if w >= 2 else []
        for vals in shapes:
            if not vals:
                continue
            for explicit in (False, True):
                vs = [V(vname(i), v if (explicit or v != i) else None) for i, v in enumerate(vals)]
                cfgd = adef.mk_config(register_address_type="u8", default_byte_order="LE")
                partial = lambda lo: adef.mk_field("alpha", "uint", lo, lo + w, conv=adef.mk_enum("En", copy.deepcopy(vs), use_try=False))
                defs.append({"config": cfgd, "objects": [adef.mk_register("Ra", 0, 8, [partial(0)])]})
                if explicit or len(defs) % 3:
                    continue
                # the same enum in company: what an EARLIER enum of the object (or of an earlier object, or of the other
                # direction of a command) is like says nothing about this one (seed C07-8 carried `has_fallback` over
                # from one enum of an object to the next)
                fb = lambda nm, k: adef.mk_field(nm, "uint", 4, 6, conv=adef.mk_enum("Pre" + nm.capitalize(), [V("Pa"), V("Pb", k)], use_try=False))
                full = adef.mk_field("omega", "uint", 6, 7, conv=adef.mk_enum("Full", [V("Fa"), V("Fb")], use_try=False))
                if w <= 4:
                    defs.append({"config": cfgd, "objects": [adef.mk_register("Ra", 0, 8, [fb("pre", "default"), partial(0)])]})
                    defs.append({"config": cfgd, "objects": [adef.mk_register("Ra", 0, 8, [fb("pre", "catch_all"), full, partial(0)])]})
                    defs.append({"config": cfgd, "objects": [adef.mk_register("Rz", 1, 8, [fb("pre", "default")]),
                                                              adef.mk_register("Ra", 0, 8, [partial(0)])]})
                    cfgc = adef.mk_config(register_address_type="u8", command_address_type="u8", default_byte_order="LE")
                    defs.append({"config": cfgc, "objects": [adef.mk_command("Ca", 0, size_bits_in=8, size_bits_out=8,
                                                                              fields_in=[fb("pre", "default")], fields_out=[partial(0)])]})
    cases = [{"id": f"r{i}", "syntax": "dsl", "text": adef.to_dsl(d), "name": "Dev", "want": ["facts"]} for i, d in enumerate(defs)]
    res = gen_common.run_gen(ctx, exe, cases, tag="mustrej")
    viol = []
    for c in cases:
        r = res[c["id"]]
        if r.get("status") == "ok":
            bad = unchecked_getter_oracle(r.get("facts") or {})
            viol.append({"what": "a non-try enum without default/catch-all that misses a bit pattern was accepted" +
                                 ("; its getter returns the enum without a Result and is undefined (unwrap_unchecked on Err) for raw value %s" % bad[0][3] if bad else ""),
                         "failing_input": {"syntax": "dsl", "text": c["text"], "raw_value": bad[0][3] if bad else None},
                         "implementation": "accepted" + (", getter conv unsafe_into" if bad else ""), "model_and_spec": "rejected (enum_not_covered)"})
        elif r.get("status") != "error":
            viol.append({"what": "generator " + str(r.get("status")), "failing_input": {"syntax": "dsl", "text": c["text"]}})
    return len(cases), viol


def run(ctx):
    _big_stack()
    info = vlib.coq_gate(ctx)
    exe, err = gen_common.build_gen_runner(ctx)
    if err:
        vlib.violation(ctx, {"broken": err}, no_input=True)
        vlib.write_evidence(ctx, info, {"evaluations": 0, "distinct_nontrivial": 0, "rule": RULE, "samples": []})
        return
    rng = random.Random(ctx.seed)
    quick = ctx.tier == "quick"
    ndefs, wmax, max_full = (130, 10, 8) if quick else (260, 16, 10)
    defs = []
    # fixed corner cases first: width 1, both fallbacks in both orders, catch-all first, permuted full coverage
    V = adef.mk_variant
    for w, base, vals, t in [(1, "uint", [None, None], False), (1, "uint", ["catch_all"], False), (2, "uint", ["default", "catch_all", 3], False),
                             (2, "uint", ["catch_all", "default", 3], False), (3, "uint", [5, None, None, 0, None, None, None, None], False),
                             (8, "int", [-128, -1, "catch_all", 127], False), (8, "int", [None, "default"], False),
                             (4, "int", [None] * 16, False), (3, "uint", [7, 2], True)]:
        cfgd = adef.mk_config(register_address_type="u8", default_byte_order="LE")
        objs = [adef.mk_register("Ra", 0, 8, [adef.mk_field("alpha", base, 0, w, conv=adef.mk_enum("En", [V(vname(i), v) for i, v in enumerate(vals)], use_try=t))])]
        if not t:
            objs.append(adef.mk_register("Rb", 1, 8, [adef.mk_field("beta", base, 0, max(1, w - 1) if w < 8 else 8, conv=adef.mk_direct("En"))]))
        objs.append(adef.mk_register("Re", 2, 8, [adef.mk_field("eps", base, 0, min(8, w + 2) if base == "uint" or w < 8 else 8, conv=adef.mk_direct("En", use_try=True))]))
        defs.append(({"config": cfgd, "objects": objs}, {"w": w, "base": base, "try": t, "vals": vals}))
    while len(defs) < ndefs:
        defs.append(gen_def(rng, wmax, max_full))
    distinct = {json.dumps([m["w"], m["base"], m["try"], m["vals"]]) for _, m in defs}
    nlines, violations, stats = 0, [], collections.Counter()
    bsize = 65
    for b in range(0, len(defs), bsize):
        nl, viol, st = run_batch(ctx, exe, defs[b:b + bsize], f"c07b{b // bsize}")
        nlines += nl
        violations += viol
        stats.update(st)
    nnum, nv = numbering_probe(ctx, exe, [x for x in defs if len(x[1]["vals"]) <= 40][:24 if quick else 120], random.Random(ctx.seed + 11))
    ctx.log("numbering probe: discriminants compared", nnum)
    nlines += nnum
    violations += nv
    nrej, rv = must_reject_probe(ctx, exe)
    nlines += nrej
    violations += rv
    probe, bad = int_full_width_probe(ctx, exe)
    if bad:
        violations.append(bad)
    wprobe, bad = wide_reuse_probe(ctx, exe)
    if bad:
        violations.append(bad)
    xprobe, bad = cross_class_reuse_probe(ctx, exe)
    ctx.log("cross-class reuse probe", xprobe)
    if bad:
        violations.append(bad)
    cprobe, cviol = cfg_reuse_family(ctx, exe)
    violations += cviol
    miri = {"ran": False, "why": "quick tier"}
    if not quick:
        miri, mv = miri_subset(ctx, exe, random.Random(ctx.seed + 9))
        violations += mv
    if violations:
        violations.sort(key=lambda v: (len((v.get("failing_input") or {}).get("text", "x" * 100000)), "stderr" not in v, "implementation" not in v))
        rep = dict(violations[0])
        rep["disagreements"] = len(violations)
        vlib.violation(ctx, rep, no_input="failing_input" not in rep)
    elif not info["ok"]:
        vlib.violation(ctx, {"broken": info["reason"], "theorem": "props/C07.v"}, no_input=True)
    chk = None
    if not quick and info["ok"]:
        okc, outc = vlib.coqchk("C07")
        chk = outc.strip().splitlines()[-6:]
        if not okc:
            vlib.violation(ctx, {"broken": "coqchk rejected the compiled proofs", "detail": outc[-800:]}, no_input=True)
    ctx.log(f"definitions {len(defs)}, table lines compared {nlines}, raw values / bit patterns evaluated {stats['values']}, "
            f"int-full-width probe {probe}, wide-reuse probe {wprobe}, cfg-reuse family {json.dumps(cprobe)[:1500]}, miri {miri}")
    sample = defs[len(defs) // 2]
    vlib.write_evidence(ctx, info, {
        "evaluations": int(stats["values"]), "distinct_nontrivial": len(distinct), "rule": RULE,
        "exhaustive": True, "exhaustive_what": "per definition: every raw value of the enum's field for From/TryFrom/Into and every bit pattern of every field with a conversion for the getter",
        "definitions": len(defs), "table_lines_compared": nlines, "input_distribution": {k: v for k, v in stats.items() if k != "values"},
        "int_full_width_probe": probe, "wide_reuse_probe": wprobe, "cfg_reuse_family": cprobe, "miri": miri, **({"coqchk": chk} if chk else {}), "disagreements": len(violations),
        "samples": [{"text": adef.render(sample[0], "dsl"), "meta": {k: (v if k != "vals" else v[:20]) for k, v in sample[1].items()}}]})


def replay(ctx, path):
    rep = json.load(open(path))
    fi = rep.get("failing_input")
    if not fi:
        run(ctx)
        return
    _big_stack()
    vlib.coq_gate(ctx)
    exe, err = gen_common.build_gen_runner(ctx)
    if fi.get("family_member"):
        # a member of the cfg-reuse family: the family is small, re-run it and report what it reports for that member
        info, viol = cfg_reuse_family(ctx, exe)
        ctx.log("cfg-reuse family:", json.dumps(info["members"].get(fi["family_member"])))
        viol = [v for v in viol if (v.get("failing_input") or {}).get("family_member") == fi["family_member"]]
        if viol:
            viol.sort(key=lambda v: ("stderr" not in v, "implementation" not in v))
            vlib.violation(ctx, dict(viol[0], disagreements=len(viol)))
        return
    # rebuild the adef-independent parts from the text: re-run the generator, use facts to drive the driver
    res = gen_common.run_gen(ctx, exe, [{"id": "m0", "syntax": fi["syntax"], "text": fi["text"], "name": "Dev", "want": ["mir", "facts", "pretty"]}])
    r = res["m0"]
    ctx.log("generator:", gen_common.canon_status(r))
    if r.get("status") != "ok":
        vlib.violation(ctx, {"failing_input": fi, "implementation": gen_common.canon_status(r)})
        return
    d = rep.get("adef")
    model = gen_common.eval_model(ctx, ["Enum"], "c07_result", [("m0", gen_common.mir_term(r))])["m0"]
    ctx.log("model:\n" + model)
    # minimal driver: every getter of every field set with a conversion, on every pattern
    blocks, sites = [], []
    for fsx in r["facts"]["field_sets"]:
        nbytes = fsx["size_bytes"]
        for g in fsx["getters"]:
            if g["conv"] in ("unsafe_into", "into", "try_into"):
                sid = len(sites)
                sites.append((fsx["name"], g["name"], g["conv"]))
                show = f"show_res(&fs.{g['name']}())" if g["conv"] == "try_into" else f"format!(\"{{:?}}\", fs.{g['name']}())"
                blocks.append(f'''
    if {sid} >= start && {sid} < stop {{
        println!("BEGIN {sid}");
        for p in 0..{2 ** (g['end'] - g['start'])}u64 {{
            let mut bytes = [0u8; {nbytes}];
            let sh = (p << {g['start']}).to_le_bytes();
            bytes.copy_from_slice(&sh[..{nbytes}]);
            let fs = m0::field_sets::{fsx['name']}::from(bytes);
            println!("{{}} {{}}", p, {show});
        }}
        println!("END {sid}");
    }}''')
    l2.write_crate(ctx, "c07replay", {"m0": r["pretty"]}, make_main(blocks))
    ok, out = l2.build(ctx, "c07replay")
    if not ok:
        expected = any("nocompile" in ln.split(" | ")[-1] for ln in model.split("\n") if not ln.startswith("enum "))
        ctx.log("rustc rejects the emitted code" + (" — as the model predicts (a plain `into` on an enum without From)" if expected else "") + ":\n" + out[-800:])
        l2.cleanup(ctx, "c07replay")
        if not expected:
            vlib.violation(ctx, {"failing_input": fi, "rustc": out[-1500:]})
        return
    by_site, crashes = run_driver(ctx, "c07replay", len(sites))
    mlines = {ln.split(" ")[0]: ln for ln in model.split("\n")}
    bad = False
    for sid, (fs, g, conv) in enumerate(sites):
        pairs = [(int(ln.split(" ", 1)[0]), ln.split(" ", 1)[1]) for ln in by_site.get(sid, [])]
        gf = [x for fsx in r["facts"]["field_sets"] if fsx["name"] == fs for x in fsx["getters"] if x["name"] == g][0]
        base = "int" if gf["carrier"].startswith("i") else "uint"
        table = rle([(p, tok(raw_of_pattern(base, gf["end"] - gf["start"], p), s)) for p, s in pairs])
        ctx.log(f"{fs}.{g} {conv}: " + table[:600])
        ml = mlines.get(f"{fs}.{g}")
        if ml is not None and ml.split(" | ")[-1] != table:
            bad = True
    for s, last, err in crashes:
        ctx.log("CRASH in", sites[s] if s is not None else "?", "after", last, err)
    l2.cleanup(ctx, "c07replay")
    if crashes or bad:
        vlib.violation(ctx, {"failing_input": fi, "crashes": [str(c) for c in crashes], "model": model})
