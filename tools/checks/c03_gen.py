"""C03 generator half: every load/store call site of REAL generator output, for boundary-biased
definitions, is in bounds; the facts equal the Coq model FieldSetGen.v evaluated on the real MIR."""
import json, random, collections
import vlib, adef
from checks import gen_common, fs_common, c11


def run_gen_half(ctx, info):
    exe, err = gen_common.build_gen_runner(ctx)
    if err:
        vlib.violation(ctx, {"broken": err}, no_input=True)
        return {"evaluations": 0, "distinct": 0, "samples": []}
    rng = random.Random(ctx.seed + 3)
    n = 1200 if ctx.tier == "quick" else 12000
    cases, defs = [], {}
    for i in range(n):
        d = c11.gen_def(rng, 0.35)
        if i % 25 == 7:
            # an otherwise clean definition whose ONLY fault is a field beyond its field set, in an object declared AFTER a
            # block (at the top level, or inside a block after a nested block): where an object sits in its list has nothing
            # to do with whether its ranges are validated (seed C03-11: a walk that returned out of the first block it met)
            okf = lambda: [adef.mk_field("va", "uint", 0, 8)]
            badreg = adef.mk_register("After", 50, 8, [adef.mk_field("counter", "uint", 8, 32)], byte_order="LE") if rng.random() < 0.6 else \
                adef.mk_command("After", 50, size_bits_in=8, fields_in=[adef.mk_field("counter", "uint", 4, 12)])
            pre = adef.mk_block("Pre", [adef.mk_register("Inner", 1, 8, okf())], address_offset=2000)
            objs = [adef.mk_register("First", 0, 8, okf()), pre, badreg]
            if rng.random() < 0.4:
                objs = [adef.mk_block("Outer", [pre, badreg], address_offset=4000)]
            d = {"config": adef.mk_config(register_address_type="u16", command_address_type="u16"), "objects": objs}
        if i % 25 == 13:
            # an echo command: out field list EXACTLY equal to the in field list, SIZE_BITS_OUT smaller, a field above it
            # (seed C03-12: a pass that skips the out checks when the two lists are equal)
            wv = rng.choice([16, 12, 9])
            okf = lambda: [adef.mk_field("va", "uint", 0, 8)]
            echo = adef.mk_command("Echo", 60, size_bits_in=16, size_bits_out=8, fields_in=[adef.mk_field("val", "uint", 0, wv)],
                                   fields_out=[adef.mk_field("val", "uint", 0, wv)], byte_order=rng.choice(["LE", "BE"]))
            d = {"config": adef.mk_config(register_address_type="u16", command_address_type="u16"),
                 "objects": [adef.mk_register("First", 0, 8, okf()), echo]}
        # wide fields and sizes up to 128 bits (and a few beyond, which must not be accepted silently as in-bounds)
        if rng.random() < 0.3:
            size = rng.choice([31, 32, 33, 63, 64, 65, 127, 128])
            w = rng.choice([size, size - 1, min(size, 17), min(size, 33), min(size, 65)])
            s = rng.randrange(0, size - w + 1)
            d["objects"].append(adef.mk_register("Wide", 900, size, [adef.mk_field("wide", rng.choice(["uint", "int"]), s, s + w)],
                                                 byte_order=rng.choice(["LE", "BE"]), bit_order=rng.choice([None, "LSB0", "MSB0"])))
        # beyond 128 bits (the integer reset form is a u128: the array it yields must still span the declared size)
        if rng.random() < 0.15:
            size = rng.choice([129, 130, 136, 144, 160, 200, 256])
            nb = (size + 7) // 8
            fields = []
            for k, (lo_min, hi_max) in enumerate([(0, min(size, 128)), (rng.choice([64, 120, 128]), size)]):
                w = rng.choice([1, 8, 17, min(hi_max - lo_min, 64), min(hi_max - lo_min, 128)])
                w = max(1, min(w, hi_max - lo_min))
                s = rng.choice([lo_min, hi_max - w, rng.randrange(lo_min, hi_max - w + 1)])
                fields.append(adef.mk_field(["lo", "hi"][k], "uint", s, s + w))
            rv = rng.choice([None, None, rng.choice([0, 1, 0x1234, (1 << 127) | 5, (1 << 128) - 1]), [rng.randrange(256) for _ in range(nb)]])
            if isinstance(rv, list) and size % 8:
                rv = [0] * nb
            huge = adef.mk_register("Huge", 901, size, fields, byte_order=rng.choice(["LE", "BE"]), bit_order=rng.choice([None, "LSB0", "MSB0"]),
                                    reset_value=rv)
            huge["allow_bit_overlap"] = True
            d["objects"].append(huge)
        # a generated enum named again (Direct conversion) on a field of ANOTHER width / carrier class: the carrier of
        # every accessor follows the field's own width, whatever the type it converts to
        if rng.random() < 0.2:
            w0 = rng.choice([1, 2, 3])
            vs = [adef.mk_variant("Va"), adef.mk_variant("Vb", "default")]
            en = adef.mk_enum("Mode" + str(i % 7), vs)
            w1 = rng.choice([w0, 8, 9, 16, 17, 33])
            size = 8 * ((8 + w1 + 7) // 8 + 1)
            d["objects"].append(adef.mk_register("Reuse", 902, size, [
                adef.mk_field("mode", "uint", 0, w0, conv=en),
                adef.mk_field("last_mode", "uint", 8, 8 + w1, conv=adef.mk_direct(en["name"], True))],      # `try`: the method choice of a non-try reuse is C07's model (Enum.conv_choice)
                byte_order=rng.choice(["LE", "BE"])))
        # the same register name under two exclusive cfgs (legal: one of them exists per build) with DIFFERENT sizes and a
        # field above the smaller one: each field set keeps its own declared size and byte length (seed C03-6 looked the
        # size up by name and gave both the size of the one declared last)
        force_dsl = False
        if rng.random() < 0.12:
            big, small = rng.choice([(32, 8), (16, 8), (64, 24), (128, 40), (24, 9)])
            first, second = (big, small) if rng.random() < 0.7 else (small, big)
            for k, (sz, cfgx) in enumerate([(first, 'feature = "twin"'), (second, 'not(feature = "twin")')]):
                fl = [adef.mk_field("low", "uint", 0, min(sz, 8))]
                if sz > 8:
                    fl.append(adef.mk_field("high", rng.choice(["uint", "int"]), 8, sz))
                d["objects"].append(adef.mk_register("Twin", 903 + k, sz, fl, byte_order=rng.choice(["LE", "BE"]), cfg=cfgx))
        syntax = rng.choice(["dsl", "dsl", "json", "yaml", "toml"])
        if syntax != "dsl" and any(o["name"] == "Twin" for o in d["objects"]):
            syntax = "dsl"          # a manifest is a map: it cannot hold two entries with one key
        if syntax != "dsl":
            for o, _ in adef.walk(d["objects"]):
                if o["kind"] == "register" and isinstance(o.get("reset_value"), int) and o["reset_value"] >= 2 ** 63:
                    o["reset_value"] %= 2 ** 63
        cid = f"g{i}"
        defs[cid] = d
        cases.append({"id": cid, "syntax": syntax, "text": adef.render(d, syntax, rng), "name": "Dev", "want": ["mir", "facts"]})
    res = gen_common.run_gen(ctx, exe, cases)
    terms = []
    for c in cases:
        r = res[c["id"]]
        if r.get("status") == "ok":
            t = gen_common.mir_term(r)
            if t:
                terms.append((c["id"], t))
    model = gen_common.eval_model(ctx, ["Layout", "FieldSetGen"], "field_sets_result", terms, tag="fsgen")
    # a generator panic is not an accepted definition; it must still be one the sequenced pass models predict
    pterms = []
    for c in cases:
        r = res[c["id"]]
        if r.get("status") in ("panic", "abort"):
            try:
                t = gen_common.mir_term(r)
            except Exception:
                t = None
            if t:
                pterms.append((c["id"], f'40 "Dev"%string ({t})'))
    pmodel = vlib.coq_eval_strings(ctx, gen_common.PREAMBLE.format(mods="Pipeline"),
                                   [(i, "pipeline_result " + t) for i, t in pterms], shard_size=20, tag="fsgenp") if pterms else {}
    nacc = npanic = 0
    shapes = set()
    diffs = []
    for c in cases:
        r = res[c["id"]]
        if r.get("status") in ("panic", "abort"):
            if pmodel.get(c["id"], "").startswith("panic:"):
                npanic += 1
                continue
            diffs.append((c, "generator " + r["status"] + " not predicted by the pass models", r.get("message"), pmodel.get(c["id"])))
            continue
        if r.get("status") != "ok":
            continue
        nacc += 1
        facts = r["facts"]
        bad = fs_common.direct_bounds_violations(facts)
        if bad:
            diffs.append((c, "call site out of bounds", bad[:3], None))
            continue
        got = fs_common.canon_fs(facts)
        want = model.get(c["id"])
        for fs in facts["field_sets"]:
            for a in fs["getters"] + fs["setters"]:
                shapes.add((fs["size_bits"], (a["start"] or 0) % 8, (a["end"] or 0) % 8, a["carrier"], a["func"], a["byte_order"]))
        if got != want:
            diffs.append((c, "emitted field-set facts differ from the model", got, want))
    if diffs:
        diffs.sort(key=lambda d: len(d[0]["text"]))
        c, what, got, want = diffs[0]
        vlib.violation(ctx, {"what": what, "failing_input": {"syntax": c["syntax"], "text": c["text"]},
                             "implementation": got, "model_and_spec": want, "disagreements": len(diffs)})
    samples = []
    for c in cases[:400]:
        r = res[c["id"]]
        if r.get("status") == "ok" and r["facts"]["field_sets"]:
            samples.append({"syntax": c["syntax"], "text": c["text"][:600], "facts": fs_common.canon_fs(r["facts"])})
            if len(samples) >= 2:
                break
    return {"evaluations": len(cases), "accepted": nacc, "generator_panics_predicted_by_model": npanic, "distinct": len(shapes), "samples": samples,
            "rule": "boundary-biased definitions through the real transform_*; every load/store call site checked against "
                    "start<end<=size<=8N and width<=carrier, and all field-set facts compared with FieldSetGen.v on the real MIR; "
                    "distinct = (size, start mod 8, end mod 8, carrier, function, byte order) call-site shapes"}
