"""C13 — accepted definitions never compute an address outside their address type."""
import json, os, random, collections, re
import vlib, adef, l2
from checks import gen_common, addr_common as ac

RULE = ("corpus/C13 first (the witnesses of the repaired defects D3, D3b, D3c, D4, D4b, D4c with the outcome and internal type recorded for each); "
        "then object trees generated NEAR THE BOUNDS of each of the seven address types: one probe path (0..3 nested blocks with "
        "offsets, optional block repeats, a leaf with optional repeat and signed stride) whose extreme address lands at "
        "type.min/max + {-2..2}, plus fillers, register/command refs with/without address and repeat override, block refs, "
        "missing address types; rendered as DSL/JSON/YAML/TOML and run through the REAL transform_*; the MIR of the real front "
        "end is parsed and the Coq model (addr_check: the repaired min/max walk in i128) and the exact Z SPEC (instances/reach/fits) "
        "evaluated on it by vm_compute. L1 compares (i) implementation vs spec: unfit/missing => rejected, accepted => every instance "
        "fits (an accepted unfit definition is a violation whatever construct it goes through), no generator panic; (ii) "
        "implementation vs model: status, error kind, the stated extreme, type and bound; (iii) for every accepted definition the "
        "type the emitted block structs declare for base_address vs the model's internal type. L2 compiles accepted definitions without "
        "block refs (debug: overflow checks on; release: wrapping) and calls every accessor at every extreme index tuple against a "
        "recording mock; recorded bus addresses are compared with the model's gen_addr (debug/release) and with the spec's addr_sem; "
        "any difference from addr_sem (an overflow or wrap on the way to a fitting address) is a violation. "
        "distinct = distinct abstract definitions")

TAG_IDS = ["D3", "D4", "D4b", "D4c"]   # tags of the spec: through which construct an instance is reached (repaired classes)


def rng_range(T):
    return adef.INT_RANGE[T]


def in_i64(v):
    return -2 ** 63 <= v <= 2 ** 63 - 1


def gen_def(rng, stats):
    for _attempt in range(200):
        d = try_gen(rng, collections.Counter())
        if d is None:
            continue
        d, local = d
        if ac.count_instances(d["objects"]) <= 400:
            for k, v in local.items():
                stats[k] += v
            return d
    raise RuntimeError("generator failed")


def try_gen(rng, st):
    nm = ac.Namer(rng)
    T = rng.choice(adef.INTEGER_TYPES)
    kind = rng.choice(["register", "register", "command", "buffer"])
    st["type_" + T] += 1
    st["probe_" + kind] += 1
    lo, hi = rng_range(T)
    up = rng.random() < 0.6
    bound = hi if up else lo
    delta = rng.choice([-2, -1, -1, 0, 0, 0, 0, 1, 1, 2]) if rng.random() < 0.85 else rng.choice([-40, -7, 7, 40])
    target = bound + delta
    st["delta_%+d" % delta if abs(delta) <= 2 else "delta_far"] += 1
    allow_all = rng.random() < 0.7
    span = hi - lo

    def mk_leaf(name, k, addr, rep, access=None):
        fl = True if allow_all else None
        if k == "register":
            return adef.mk_register(name, addr, 8, ac.small_field(), repeat=rep, allow_address_overlap=fl, access=access)
        if k == "command":
            return adef.mk_command(name, addr, repeat=rep, allow_address_overlap=fl)
        return adef.mk_buffer(name, addr)

    # ---- probe path
    depth = rng.choice([0, 0, 0, 1, 1, 2, 3])
    st["probe_depth_%d" % depth] += 1
    blocks = []
    acc = 0        # what the extreme index tuple contributes (accounted part)
    for _ in range(depth):
        off = rng.choice([0, 1, -1, 5, -5, 16, bound // 2, bound // 3, -(bound // 4), span // 3])
        rep = None
        if rng.random() < 0.3:
            cnt = rng.choice([2, 2, 3, 4])
            stride = rng.choice([1, -1, 2, 10, -10, 100, span // 8, -(span // 8), 0])
            rep = {"count": cnt, "stride": stride}
            st["probe_block_repeat"] += 1
            if rng.random() < 0.5:     # account for the block repeat in the target (so the TRUE extreme is at the bound)
                push = (cnt - 1) * stride
                if (push > 0) == up and push != 0:
                    acc += push
        acc += off
        blocks.append((nm.fresh(), off, rep))
    rep = None
    if kind != "buffer" and rng.random() < 0.55:
        r = rng.random()
        if r < 0.15 and lo < 0:      # spans more than half of a signed type (D3b pattern)
            cnt = rng.choice([2, 3, 3, 4])
            stride = (span - rng.choice([0, 1, 2, 5])) // (cnt - 1)
            stride = stride if up else -stride
            st["probe_wide_span"] += 1
        elif r < 0.22:
            cnt = rng.choice([130, 200, 257, 300])
            stride = rng.choice([1, -1, 0])
        else:
            cnt = rng.choice([1, 2, 2, 3, 3, 4])
            stride = rng.choice([0, 1, -1, 2, -2, 10, -10, 100, -100, span // 16, -(span // 16)])
        rep = {"count": cnt, "stride": stride}
        st["probe_leaf_repeat"] += 1
        if stride < 0:
            st["probe_negative_stride"] += 1
        push = (cnt - 1) * stride
        if (push > 0) == up and push != 0:
            acc += push
    leaf_addr = target - acc
    nums = [leaf_addr] + [b[1] for b in blocks]
    if not all(in_i64(v) for v in nums):
        return None
    probe_name = nm.fresh()
    node = mk_leaf(probe_name, kind, leaf_addr, rep)
    probe_leaf = node
    probe_blocks = []
    for (bn, off, brep) in reversed(blocks):
        node = adef.mk_block(bn, [node], address_offset=off, repeat=brep)
        probe_blocks.append(node)
    objs = [node]
    # ---- fillers (small addresses, mostly other kinds)
    used = {"register": set(), "command": set(), "buffer": set()}
    for _ in range(rng.choice([0, 0, 1, 1, 2, 3])):
        k = rng.choice(["register", "command", "buffer"])
        a = rng.choice([x for x in range(0, 40) if x not in used[k]])
        used[k].add(a)
        f = mk_leaf(nm.fresh(), k, a, {"count": 2, "stride": rng.choice([1, 50])} if (k != "buffer" and rng.random() < 0.2) else None)
        st["filler_" + k] += 1
        if probe_blocks and rng.random() < 0.3:
            rng.choice(probe_blocks)["objects"].append(f)
        else:
            objs.insert(rng.randrange(0, len(objs) + 1), f)
    # ---- refs
    if kind in ("register", "command") and rng.random() < 0.4:
        nrefs = rng.choice([1, 1, 2])
        for _ in range(nrefs):
            raddr = rng.choice([None, None, target + rng.choice([-3, -2, -1, 0, 1, 2, 3]), bound - rng.choice([5, 9, 30]) * (1 if up else -1),
                                rng.choice([1, 2, 3, 7, 50])])
            rrep = None
            if rng.random() < 0.3:
                rrep = {"count": rng.choice([2, 3]), "stride": rng.choice([1, -1, 2, -2, 10, -10])}
            if raddr is not None and not in_i64(raddr):
                raddr = None
            ov = {"kind": kind, "address": raddr, "repeat": rrep, "allow_address_overlap": True if allow_all else None}
            if kind == "register":
                ov["access"] = None
                ov["reset_value"] = None
            if raddr is None and rrep is None and ov["allow_address_overlap"] is None:
                if kind == "register":
                    ov["access"] = "RO"
                else:
                    ov["allow_address_overlap"] = False
            st["ref_no_address" if raddr is None else "ref_with_address"] += 1
            if rrep is None and rep is not None:
                st["ref_keeps_repeat"] += 1
            r = adef.mk_ref(nm.fresh(), probe_name, ov)
            if rng.random() < 0.5:
                boff = rng.choice([0, 1, -1, 10, bound // 2, delta, 3])
                if not in_i64(boff):
                    boff = 0
                objs.append(adef.mk_block(nm.fresh(), [r], address_offset=boff,
                                          repeat={"count": 2, "stride": rng.choice([1, -1, 7])} if rng.random() < 0.2 else None))
                st["ref_in_block"] += 1
            else:
                objs.insert(rng.randrange(0, len(objs) + 1), r)
    if probe_blocks and rng.random() < 0.25:
        tb = rng.choice(probe_blocks)
        boff = rng.choice([None, 0, 1, 5, delta, bound // 2, span // 3, -(span // 3)])
        if boff is not None and not in_i64(boff):
            boff = None
        ov = {"kind": "block", "address_offset": boff,
              "repeat": {"count": rng.choice([2, 3]), "stride": rng.choice([1, -1, 10, 0])} if rng.random() < 0.3 else None}
        objs.append(adef.mk_ref(nm.fresh(), tb["name"], ov))
        st["block_refs"] += 1
        if rng.random() < 0.5:
            # a SECOND ref to the same block, declared later and placed further out (or on the other side): every
            # instantiation of a block counts, not only the first one a walk meets (seed C13-11: a never-emptied set of
            # "already followed" targets)
            far = rng.choice([delta, bound // 2, span // 2, -(span // 2), delta + 7, bound - 3])
            if in_i64(far):
                objs.append(adef.mk_ref(nm.fresh(), tb["name"], {"kind": "block", "address_offset": far, "repeat": None}))
                st["block_refs_second"] += 1
    # ---- config
    cfg = {}
    for k in ("register", "command", "buffer"):
        cfg[k + "_address_type"] = T if k == kind else rng.choice(["i64", "i64", "u32", "i32", T])
    if rng.random() < 0.05:
        k = rng.choice(["register", "command", "buffer"])
        cfg[k + "_address_type"] = None
        st["type_dropped"] += 1
    d = {"config": adef.mk_config(**cfg), "objects": objs}
    for o, _, _ in ac.all_objects(objs):
        t = o["override"] if o["kind"] == "ref" else o
        r = t.get("repeat")
        if r is not None and not in_i64(r["stride"]):
            return None
    return d, st


ERR_RX = re.compile(r"^error:(address_too_low|address_too_high):(register|command|buffer)\|(-?\d+)\|(\w+)\|(-?\d+)$")


def judge(e, open_ids):
    """-> (verdict, detail). verdict: agree_accept | agree_reject | over_reject | reject_other | known:<ids> | violation"""
    impl = e["impl"]
    if e["coq"] is None or e["coq"].startswith("<<COQ-ERROR"):
        return "violation", "no model result: " + str(e["coq"])[:300]
    model, spec, it = e["coq"].split(" ## ")
    # ---- implementation vs the exact spec first: what the property itself forbids
    if spec.startswith("fail:"):
        return "violation", f"spec evaluation failed: {spec}"
    if impl == "ok" and spec != "fits":
        # accepted although something does not fit / a type is missing.  D3, D4, D4b, D4c are repaired, so this is a
        # violation whatever construct the offending instance is reached through; the tags computed by the spec name the
        # defect that is back
        ids = set()
        for v in spec.split(";"):
            if v.startswith("missing:"):
                return "violation", f"accepted although an address type is missing: {v}"
            for t in v.split("|")[3].split("+"):
                if t:
                    ids.add(t)
        back = f" (defect {'/'.join(sorted(ids))} is back)" if ids else " (no repeated block, block ref or ref fallback involved)"
        return "violation", f"accepted although a reachable address does not fit its address type: {spec}{back}"
    if impl == "panic":
        # the min/max walk, find_best_internal_address and the overlap check compute in i128/u128 since the repair of D3c
        if spec == "fits":
            return "violation", f"generator panics ({e['message']}) on a definition whose addresses all fit (defect D3c is back?)"
        return "violation", (f"generator panics ({e['message']}) on a definition that must be rejected with an error stating the "
                             f"bound: {spec} (defect D3c is back?)")
    # ---- implementation vs model
    if not ac.impl_matches_model(impl, model):
        return "violation", f"implementation {impl!r} vs model {model!r}"
    m = ERR_RX.match(impl)
    if m:   # "an error stating the offending bound": the stated bound is the type's, the stated extreme is beyond it
        which, k, val, ty, bnd = m.group(1), m.group(2), int(m.group(3)), m.group(4), int(m.group(5))
        lo, hi = adef.INT_RANGE.get(ty, (None, None))
        if (which == "address_too_low" and not (bnd == lo and val < lo)) or (which == "address_too_high" and not (bnd == hi and val > hi)):
            return "violation", f"the error does not state the offending bound of {ty}: {impl}"
    if spec == "fits":
        if impl == "ok":
            return "agree_accept", ""
        if impl.startswith("error:address_too_"):
            return "over_reject", ""
        return "reject_other", ""
    if impl.startswith("error:"):
        return "agree_reject", ""
    return "violation", f"implementation {impl!r}, spec {spec!r}"


def category(e, open_ids):
    """finer class of a violation, kept fixed while shrinking"""
    v, detail = judge(e, open_ids)
    if v != "violation":
        return None
    if e["coq"] and " ## " in e["coq"] and e["impl"] == "ok":
        spec = e["coq"].split(" ## ")[1]
        if any(x.startswith("unfit:") and x.split("|")[3] == "" for x in spec.split(";")):
            return "accepted_unfit"
    if detail.startswith("accepted although"):
        return "accepted_unfit"
    if detail.startswith("generator panics"):
        return "panic"
    return "model_mismatch"


def repaired_class_shape(d):
    """the definition has a repeated block or a register/command ref without address or repeat override"""
    for o, _, _ in ac.all_objects(d["objects"]):
        if o["kind"] == "block" and o.get("repeat"):
            return True
        if o["kind"] == "ref" and o["override"]["kind"] != "block" and (o["override"].get("address") is None or o["override"].get("repeat") is None):
            return True
    return False


def d3b_shape(d, it):
    """the shape of the repaired defect D3b: a signed address type and some repeat whose (count-1)*|stride| exceeds its
    maximum, so that an internal type sized for the final addresses only would overflow on the way (only used to pick
    definitions for L2)"""
    his = [adef.INT_RANGE[t][1] for t in (d["config"].get(k + "_address_type") for k in ("register", "command", "buffer"))
           if t and t.startswith("i")]
    if not his:
        return False
    it_hi = min(his)
    for o, _, _ in ac.all_objects(d["objects"]):
        tgt = o["override"] if o["kind"] == "ref" else o
        rep = tgt.get("repeat")
        if rep is None and o["kind"] == "ref":
            rep = (ac.find_obj(d["objects"], o["target"]) or {}).get("repeat")
        if rep is not None and (rep["count"] - 1) * abs(rep["stride"]) > it_hi:
            return True
    return False


def fn_name():
    return f'c13_result {ac.fx_flag()} {ac.FUEL} "{ac.DEV}"'


# ------------------------------------------------------------------ L2

def snake(n):
    return n[0].lower() + n[1:]


def l2_adjust(d, it, types):
    """-> (definition prepared for compilation, None) or (None, reason it cannot be compiled for reasons outside C13).
    Registers become WO where read_all_registers' literal arithmetic would not compile (D2/D8 territory)."""
    import copy
    d = copy.deepcopy(d)
    signed = it[0] == "i"
    bits = int(it[1:])
    it_lo, it_hi = (-(1 << (bits - 1)), (1 << (bits - 1)) - 1) if signed else (0, (1 << bits) - 1)
    rt = types.get("register") or "u8"
    r_lo, r_hi = adef.INT_RANGE[rt]
    for o, _, _ in ac.all_objects(d["objects"]):
        k = o["kind"]
        lits = []
        tgt = o["override"] if k == "ref" else o
        if k == "block":
            lits.append(o.get("address_offset") or 0)
        elif k == "ref":
            if tgt["kind"] == "block":
                return None, "block ref (the L2 call renderer names blocks, not ref accessors; C04 covers block-ref paths)"
            t = ac.find_obj(d["objects"], o["target"])
            lits.append(tgt.get("address") if tgt.get("address") is not None else t["address"])
        else:
            lits.append(o["address"])
        rep = tgt.get("repeat")
        if k == "ref" and rep is None:
            rep = ac.find_obj(d["objects"], o["target"]).get("repeat")
        for v in lits:
            if not (it_lo <= v <= it_hi):
                return None, "address literal outside the internal type (does not compile)"
        if rep is not None and not (abs(rep["stride"]) <= it_hi):
            return None, "stride literal outside the internal type (does not compile)"
        # read_all_registers literal arithmetic `ADDR + i * STRIDE` in the register address type
        reg = o if k == "register" else (ac.find_obj(d["objects"], o["target"]) if (k == "ref" and tgt["kind"] == "register") else None)
        if reg is not None:
            a = lits[0]
            cnt = rep["count"] if rep else 1
            s = rep["stride"] if rep else 0
            vals = [a, s, cnt - 1] + [i * s for i in range(min(cnt, 300))] + [a + i * s for i in range(min(cnt, 300))]
            safe = all(r_lo <= v <= r_hi for v in vals) and (s >= 0 or r_lo < 0)
            if not safe:
                if k == "register":
                    o["access"] = "WO"
                else:
                    tgt["access"] = "WO"
    return d, None


def l2_phase(ctx, exe, rng, accepted, open_ids, nmax):
    """accepted: list of (cid, adef, coq string). Returns (stats, violations, known)"""
    stats = collections.Counter()
    viols, known = [], collections.defaultdict(list)
    chosen = []
    for cid, d, coq in accepted:
        if ac.has_block_ref(d["objects"]):
            stats["skipped_block_ref"] += 1
            continue
        it = coq.split(" ## ")[2]
        types = {k: d["config"].get(k + "_address_type") for k in ("register", "command", "buffer")}
        d2, why = l2_adjust(d, it, types)
        if d2 is None:
            stats["skipped_uncompilable_literal"] += 1
            continue
        chosen.append((cid, d2, types))
        if len(chosen) >= nmax:
            break
    if not chosen:
        return stats, viols, known, []
    items = [(cid, d2, "dsl", adef.render(d2, "dsl")) for cid, d2, _ in chosen]
    res = ac.run_batch(ctx, exe, items, [f"c13_l2 {ac.FUEL}", fn_name()], tag="c13l2", want=("mir", "pretty"))
    mods, calls, main = {}, {}, []
    main.append("std::panic::set_hook(Box::new(|_| {}));")
    for cid, d2, types in chosen:
        e = res[cid]
        if e["impl"] != "ok" or not e["res"].get("pretty") or not e["coq"] or e["coq"] == "fail":
            stats["l2_not_generated"] += 1
            continue
        mods[cid] = e["res"]["pretty"]
        ra, ca, ba = (types.get("register") or "u8", types.get("command") or "u8", types.get("buffer") or "u8")
        lines = [x for x in e["coq"].split(";") if x]
        calls[cid] = lines
        wo = set()
        for o, _, _ in ac.all_objects(d2["objects"]):
            if o["kind"] == "register" and o.get("access") == "WO":
                wo.add(o["name"])
            elif o["kind"] == "ref" and o["override"]["kind"] == "register":
                t = ac.find_obj(d2["objects"], o["target"])
                if (o["override"].get("access") or (t or {}).get("access")) == "WO":
                    wo.add(o["name"])
        for j, ln in enumerate(lines):
            kind, path, idxs, sem, dbg, rel, tags = ln.split("|")
            names = path.split(".")
            ix = idxs.split(".")
            chain = "".join(f".{snake(n)}({'' if i == '-' else i})" for n, i in zip(names, ix))
            if kind == "register":
                op = ".write(|_| ())" if names[-1] in wo else ".read()"
            elif kind == "command":
                op = ".dispatch()"
            else:
                op = ".read(&mut [0u8; 1])"
            main.append(f"{{ let mut dev = {cid}::{ac.DEV}::new(mock::Mock::<{ra}, {ca}, {ba}>::new());")
            main.append(f"  let r = mock::catch(|| {{ let _ = dev{chain}{op}; }});")
            main.append(f'  match r {{ Ok(()) => println!("{cid} {j} {{}}", dev.interface.log.join(",")), Err(m) => println!("{cid} {j} PANIC {{}}", m) }} }}')
    if not mods:
        return stats, viols, known, []
    main_rs = "fn main() {\n" + "\n".join(main) + "\n}\n"
    samples = []
    for release in (False, True):
        mode = "release" if release else "debug"
        l2.write_crate(ctx, "c13l2", mods, main_rs)
        ok, out = l2.build(ctx, "c13l2", release=release)
        if not ok:
            hint = ""
            if "Neg` is not satisfied" in out or "literal out of range" in out or "this arithmetic operation will overflow" in out:
                hint = (" — a literal or constant product outside the generator's internal type: the internal type is narrower than "
                        "the model's, which covers every address, |stride|, count-1 and (count-1)*|stride| (defect D3b / D22 is back?)")
            viols.append({"what": f"L2: the batch of accepted definitions does not compile ({mode})" + hint, "log": out[-3000:]})
            break
        rc, stdout, stderr = l2.run_bin(ctx, "c13l2", release=release)
        got = {}
        for line in stdout.splitlines():
            p = line.split(" ", 2)
            if len(p) >= 2:
                got[(p[0], int(p[1]))] = p[2] if len(p) > 2 else ""
        for cid, d2, types in chosen:
            if cid not in calls:
                continue
            for j, ln in enumerate(calls[cid]):
                kind, path, idxs, sem, dbg, rel, tags = ln.split("|")
                want_model = rel if release else dbg
                g = got.get((cid, j))
                if g is None:
                    obs = "missing"
                elif g.startswith("PANIC"):
                    obs = "panic:overflow" if "overflow" in g else "panic:" + g[6:60]
                else:
                    first = g.split(",")[0].split(" ")
                    obs = first[1] if len(first) > 1 else "none"
                stats[f"{mode}_calls"] += 1
                back = ""
                if want_model == sem and obs != sem:
                    back = " — an overflow / wrap on the way to an address that fits (defect D3b is back?)"
                if obs != want_model:
                    viols.append({"what": f"L2 ({mode}): compiled accessor disagrees with the model's gen_addr" + back,
                                  "definition": adef.render(d2, "dsl"), "adef": d2, "call": ln, "observed": obs, "model": want_model,
                                  "addr_sem": sem})
                    continue
                if obs == sem:
                    stats[f"{mode}_exact"] += 1
                    if len(samples) < 2 and idxs.replace("-", "").replace(".", "") != "":
                        samples.append({"mode": mode, "definition": adef.render(d2, "dsl"), "call": path + " @ " + idxs,
                                        "bus_address": obs, "addr_sem": sem})
                    continue
                # the compiled code panics / puts a wrong address on the bus although the definition was accepted, and the
                # model's gen_addr agrees with it: impossible by C13_accepted_no_overflow_full (D3b is repaired: the internal
                # type covers every step's index and index * |stride|)
                it = res[cid]["coq_extra"][0].split(" ## ")[2] if res[cid].get("coq_extra") else "?"
                viols.append({"what": f"L2 ({mode}): accepted definition computes a wrong address / overflows on the way, and so does the "
                                      f"model, against C13_accepted_no_overflow_full (model class marker: {tags!r})",
                              "definition": adef.render(d2, "dsl"), "adef": d2, "call": ln, "observed": obs, "addr_sem": sem,
                              "internal_type": it})
    l2.cleanup(ctx, "c13l2")
    stats["l2_definitions"] = len(mods)
    return stats, viols, known, samples


def run(ctx):
    info = vlib.coq_gate(ctx)
    exe, err = gen_common.build_gen_runner(ctx)
    if err:
        vlib.violation(ctx, {"broken": err}, no_input=True)
        vlib.write_evidence(ctx, info, {"evaluations": 0, "distinct_nontrivial": 0, "rule": RULE, "samples": []})
        return
    rng = random.Random(ctx.seed)
    n = 1500 if ctx.tier == "quick" else 20000
    stats = collections.Counter()
    items, defs, expect, expect_it = [], {}, {}, {}
    cdir = os.path.join(vlib.VERIF, "corpus", "C13")
    if os.path.isdir(cdir):
        for f in sorted(os.listdir(cdir)):
            if f.endswith(".json"):
                d = json.load(open(os.path.join(cdir, f)))
                cid = "k" + re.sub(r"\W", "", f[:-5])
                defs[cid] = (d["adef"], d.get("syntax", "dsl"))
                if d.get("expect"):
                    expect[cid] = d["expect"]
                if d.get("expect_internal"):
                    expect_it[cid] = d["expect_internal"]
                items.append((cid, d["adef"], d.get("syntax", "dsl"), adef.render(d["adef"], d.get("syntax", "dsl"))))
    ncorpus = len(items)
    for i in range(n):
        d = gen_def(rng, stats)
        sx = rng.choice(["dsl", "dsl", "dsl", "json", "yaml", "toml"])
        cid = f"c{i}"
        defs[cid] = (d, sx)
        items.append((cid, d, sx, adef.render(ac.respell_refs(d, rng), sx, rng)))
        stats["syntax_" + sx] += 1
    fn = fn_name()
    res = ac.run_batch(ctx, exe, items, fn, tag="c13", want=("mir", "internal"))
    open_ids = [f["id"] for f in vlib.load_known_findings("C13")]
    verdicts = collections.Counter()
    outcome_hist = collections.Counter()
    bad = []
    known = collections.defaultdict(list)
    distinct = set()
    accepted = []
    for (cid, d, sx, tx) in items:
        e = res[cid]
        v, detail = judge(e, open_ids)
        impl = e["impl"]
        if v != "violation" and cid in expect and impl != expect[cid]:
            # corpus: the witnesses of the repaired defects (and of D3b) with the outcome recorded for them
            v, detail = "violation", f"corpus witness {cid}: generator says {impl!r}, recorded outcome {expect[cid]!r}"
        if v != "violation" and cid in expect_it and e["coq"].split(" ## ")[2] != expect_it[cid]:
            v, detail = "violation", f"corpus witness {cid}: model internal type {e['coq'].split(' ## ')[2]}, recorded {expect_it[cid]}"
        if v != "violation" and impl == "ok":
            # the type every emitted block struct declares for `base_address` is the model's internal type (the one
            # C13_accepted_no_overflow_full and C13_internal_type_covers_method_literals speak about)
            real_it = e["res"].get("internal")
            model_it = e["coq"].split(" ## ")[2]
            stats["internal_type_compared"] += 1
            if real_it != [model_it]:
                v, detail = "violation", (f"internal address type: the emitted block structs use {real_it}, the model's "
                                          f"find_best_internal_address gives {model_it}")
        verdicts[v] += 1
        outcome_hist[impl.split(":")[1] if impl.startswith("error:") else impl] += 1
        distinct.add(json.dumps(d, sort_keys=True))
        if v == "violation":
            bad.append((cid, detail))
        elif v.startswith("known:"):
            known[v[6:]].append((cid, detail))
        if impl == "ok" and e["coq"] and not e["coq"].startswith("<<"):
            accepted.append((cid, d, e["coq"]))
    acc = outcome_hist["ok"] / max(1, len(items))
    # ---- block-ref accessors (L2 below compiles definitions WITHOUT block refs only): the accessor a block ref emits has the
    # ref's own offset and repeat where it gives them and the target's otherwise — the values the fit check and the internal
    # type were computed for (seed C13-8 let the target's REPEAT win in the accessor only)
    if not bad:
        bref = [(cid, d) for (cid, d, _) in accepted if any(o["kind"] == "ref" and o["override"]["kind"] == "block" for o, _, _ in ac.all_objects(d["objects"]))]
        bref = bref[:150 if ctx.tier == "quick" else 2000]
        if bref:
            cases2 = [{"id": cid, "syntax": "dsl", "text": adef.render(d, "dsl"), "name": ac.DEV, "want": ["facts"]} for cid, d in bref]
            res2 = gen_common.run_gen(ctx, exe, cases2, tag="c13f")
            sn = lambda n: re.sub(r"(?<!^)(?=[A-Z])", "_", n).lower()
            for cid, d in bref:
                facts = (res2.get(cid) or {}).get("facts")
                if not facts:
                    continue
                blocks = {b["name"]: b for b in facts["blocks"]}
                for o, siblings, depth in ac.all_objects(d["objects"]):
                    if not (o["kind"] == "ref" and o["override"]["kind"] == "block"):
                        continue
                    t = ac.find_obj(d["objects"], o["target"])
                    ov = o["override"]
                    want_off = ov.get("address_offset") if ov.get("address_offset") is not None else (t.get("address_offset") or 0)
                    want_rep = ov.get("repeat") or t.get("repeat")
                    mfs = [m for b in blocks.values() for m in b["methods"] if m["name"] == sn(o["name"]) and m["kind"] == "block"]
                    stats["block_ref_accessors_compared"] += 1
                    if len(mfs) != 1:
                        continue
                    m = mfs[0]
                    got = (m.get("address"), m.get("count"), (m.get("stride") if m.get("op") != "-" else -m.get("stride")) if m.get("stride") is not None else None)
                    want = (want_off, want_rep["count"] if want_rep else None, abs(want_rep["stride"]) * (1 if want_rep["stride"] >= 0 else -1) if want_rep else None)
                    if got != want:
                        bad.append((cid, f"block ref {o['name']}: the emitted accessor has (offset, count, stride) = {got}, the definition says {want} "
                                         f"(the ref's own values where it gives them, the target's otherwise)"))
                        break
    # ---- L2
    l2stats, l2viols, l2known, l2samples = collections.Counter(), [], {}, []
    if not bad:
        # definitions with the constructs of the repaired classes first (repeated blocks, refs falling back to their
        # target's address / repeat), then a spread of the others
        # the accepted corpus witnesses in a crate of their own first: they compile with the narrower internal type of the
        # generator before the repair of D3b too, so that a regression shows as the overflow it is, not as a compile error
        corp = [a for a in accepted if a[0].startswith("k")]
        if corp:
            l2stats, l2viols, l2known, l2samples = l2_phase(ctx, exe, rng, corp, open_ids, len(corp))
        if not l2viols:
            pri = [a for a in accepted if a not in corp and d3b_shape(a[1], a[2].split(" ## ")[2])][:10 if ctx.tier == "quick" else 60]
            pri += [a for a in accepted if a not in corp and a not in pri and repaired_class_shape(a[1])][:20 if ctx.tier == "quick" else 120]
            rest = [a for a in accepted if a not in pri and a not in corp]
            rng.shuffle(rest)
            st2, v2, k2, sm2 = l2_phase(ctx, exe, rng, pri + rest, open_ids, 60 if ctx.tier == "quick" else 400)
            l2stats = l2stats + st2
            l2viols = l2viols + v2
            l2samples = l2samples + sm2
            for k, lst in k2.items():
                l2known.setdefault(k, []).extend(lst)
    findings = {f["id"]: f for f in vlib.load_known_findings("C13")}
    all_known = collections.defaultdict(list)
    for ids, lst in known.items():
        for cid, detail in lst:
            for i in ids.split("+"):
                all_known[i].append(detail + " :: " + adef.render(defs[cid][0], "dsl").replace("\n", " ")[:300])
    for ids, lst in l2known.items():
        for i in ids.split("+"):
            all_known[i].extend(lst)
    for i in sorted(all_known):
        lst = all_known[i]
        vlib.known_finding(ctx, findings.get(i, {"id": i}), f"{len(lst)} observation(s); e.g. {min(lst, key=len)}")
    if bad:
        text_len = {x[0]: len(x[3]) for x in items}
        bad.sort(key=lambda b: (category(res[b[0]], open_ids) != "accepted_unfit", text_len[b[0]]))
        cid, detail = bad[0]
        d, sx = defs[cid]
        cat = category(res[cid], open_ids)
        if cat is None:      # a corpus witness whose recorded outcome changed: already minimal
            small = d
        else:
            small = ac.shrink(ctx, exe, d, lambda e: category(e, open_ids) == cat
                              and not e["impl"].startswith("error:ref_") and not e["impl"].startswith("error:other")
                              and not e["impl"].startswith("error:dup"), fn)
        sres = ac.run_batch(ctx, exe, [("r", small, "dsl", adef.render(small, "dsl"))], fn, tag="c13r")["r"]
        vlib.violation(ctx, {"what": "address-range analysis of the real generator disagrees with the proven model / the exact reach-fits spec",
                             "failing_input": {"syntax": "dsl", "text": adef.render(small, "dsl"), "adef": small},
                             "original_input": {"syntax": sx, "adef": d},
                             "implementation": sres["impl"], "message": sres["message"], "model_spec_internal": sres["coq"],
                             "detail": judge(sres, open_ids)[1] or detail, "disagreements": len(bad)})
    elif l2viols:
        v = dict(l2viols[0])
        v["failing_input"] = {"syntax": "dsl", "text": v.get("definition"), "adef": v.get("adef"), "l2": True}
        v["disagreements"] = len(l2viols)
        vlib.violation(ctx, v, no_input=("definition" not in v))
    elif not info["ok"]:
        vlib.violation(ctx, {"broken": info["reason"], "theorem": "props/C13.v"}, no_input=True)
    if not (0.2 <= acc <= 0.9):
        ctx.log(f"warning: accepted ratio {acc:.2f} outside the sanity band")
    ids = [items[ncorpus][0], items[ncorpus + n // 2][0], items[-1][0]]
    samples = [{"syntax": defs[c][1], "text": [x for x in items if x[0] == c][0][3], "implementation": res[c]["impl"],
                "model_spec_internal": res[c]["coq"]} for c in ids] + l2samples
    vlib.write_evidence(ctx, info, {
        "evaluations": len(items) + l2stats.get("debug_calls", 0) + l2stats.get("release_calls", 0),
        "distinct_nontrivial": len(distinct), "rule": RULE, "samples": samples,
        "l1_definitions": len(items), "input_distribution": dict(stats), "outcomes": dict(outcome_hist),
        "accepted_ratio": round(acc, 3), "verdicts": dict(verdicts), "l2": dict(l2stats),
        "exhaustive": False, "exhaustive_note": {"address_types": "all seven in every run (see input_distribution type_*)", "complete": False},
        "model_variant": "fx=" + ac.fx_flag(), "disagreements": len(bad) + len(l2viols)})


def replay(ctx, path):
    d = json.load(open(path))
    fi = d.get("failing_input")
    if not fi or not (fi.get("text") or fi.get("adef")):
        run(ctx)
        return
    exe, err = gen_common.build_gen_runner(ctx)
    open_ids = [f["id"] for f in vlib.load_known_findings("C13")]
    text = fi.get("text") or adef.render(fi["adef"], fi.get("syntax", "dsl"))
    e = ac.run_batch(ctx, exe, [("r", fi.get("adef"), fi.get("syntax", "dsl"), text)], fn_name(), tag="c13r")["r"]
    v, detail = judge(e, open_ids)
    ctx.log("impl:", e["impl"], "| model ## spec ## internal:", e["coq"], "|", v, detail)
    if v == "violation":
        vlib.violation(ctx, {"failing_input": fi, "implementation": e["impl"], "model_and_spec": e["coq"], "detail": detail})
    elif fi.get("l2") and fi.get("adef") and e["impl"] == "ok":
        st, viols, known, _ = l2_phase(ctx, exe, random.Random(ctx.seed), [("r", fi["adef"], e["coq"])], open_ids, 1)
        ctx.log("l2:", dict(st), "violations:", len(viols))
        if viols:
            v = dict(viols[0])
            v["failing_input"] = fi
            vlib.violation(ctx, v)
