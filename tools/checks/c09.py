"""C09 — command dispatch transfers exactly the declared input and output."""
import random
import vlib
from checks import proto_common as pc

THEOREMS = "C09_dispatch_none, C09_dispatch_in, C09_dispatch_out, C09_dispatch_inout, C09_async_equiv (props/C09.v)"
RULE = ("exhaustive at the bound: four command shapes x every input size and output size in {1,7,8,9,12,16,24,64,128} "
        "bits (81 combinations for in+out) x interface Ok / Err x dispatch and dispatch_async with 0,1,2 Pendings x "
        "closure xor/overwrite (pattern exact, short, long) x bytes stored by the interface into the output buffer "
        "(exact, short, long); %d random replicate(s) of patterns / stored bytes / error codes / addresses from the "
        "seed; real CommandOperation::dispatch(_async) on a scripted (Async)CommandInterface vs extracted Coq model; "
        "distinct = (entry point, shape, size_in, size_out, argument byte lengths, result kind) classes; every case "
        "makes exactly one interface call")


def run(ctx):
    info = vlib.coq_gate(ctx)
    rng = random.Random(ctx.seed)
    reps = 1 if ctx.tier == "quick" else 6
    lines = pc.cmd_cases(rng, reps)
    stats, diffs, err = pc.correspondence(ctx, lines, "C")
    pc.report(ctx, info, stats, diffs, err, "C09", THEOREMS, RULE % reps,
              "command.rs disagrees with the proven dispatch model (arguments of dispatch_command or the value returned)",
              extra_assumptions=["not covered here: the generator choosing () exactly for an empty field list (C09_unit_iff_no_fields)"])


def replay(ctx, path):
    if not pc.replay(ctx, path, "C09"):
        run(ctx)
