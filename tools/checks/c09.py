"""C09 — command dispatch transfers exactly the declared input and output."""
import random
import vlib
from checks import proto_common as pc
from checks import c09_gen

THEOREMS = ("C09_dispatch_none, C09_dispatch_in, C09_dispatch_out, C09_dispatch_inout, C09_async_equiv, C09_unit_iff_no_fields, "
            "C09_generated_dispatch, C09_transferred_sizes, C09_ref_takes_target_shape (props/C09.v)")
RULE = ("exhaustive at the bound: four command shapes x every input size and output size in {1,7,8,9,12,16,24,64,128} "
        "bits (81 combinations for in+out) x interface Ok / Err x dispatch and dispatch_async with 0,1,2 Pendings x "
        "closure xor/overwrite (pattern exact, short, long) x bytes stored by the interface into the output buffer "
        "(exact, short, long); %d random replicate(s) of patterns / stored bytes / error codes / addresses from the "
        "seed; real CommandOperation::dispatch(_async) on a scripted (Async)CommandInterface vs extracted Coq model; "
        "distinct = (entry point, shape, size_in, size_out, argument byte lengths, result kind) classes; every case "
        "makes exactly one interface call")


def run(ctx):
    info = vlib.coq_gate(ctx)
    rng = random.Random(ctx.seed)
    reps = 1 if ctx.tier == "quick" else 6
    lines = pc.cmd_cases(rng, reps)
    stats, diffs, err = pc.correspondence(ctx, lines, "C")
    gen = c09_gen.run_gen_phase(ctx)
    pc.report(ctx, info, stats, diffs, err, "C09", THEOREMS, RULE % reps,
              "command.rs disagrees with the proven dispatch model (arguments of dispatch_command or the value returned)",
              extra_assumptions=["generator clause: CmdShape.v is a hand transcription of get_method's command arm and generate_method's `()` choice, "
                                 "tied to the real generator by the generator phase (token-stream facts + compiled accessors on a recording interface)"],
              extra_coverage={"generator_phase": gen})


def replay(ctx, path):
    if not pc.replay(ctx, path, "C09"):
        run(ctx)
