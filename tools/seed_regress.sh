#!/bin/bash
# Usage: tools/seed_regress.sh [seed-dir-name ...]  — re-runs every kept seeded change against the checks its meta.json
# names in caught_by and prints CAUGHT / MISSED per (seed, check).  Each patch is applied to a SNAPSHOT of /repo's HEAD
# (tools/seed_snap.sh), never to /repo itself.
cd "$(dirname "$0")/.."
V=$(pwd)
R=${VERIF_REPO:-/repo}
SEEDS="$@"
[ -z "$SEEDS" ] && SEEDS=$(ls seeded)
for s in $SEEDS; do
  checks=$(python3 -c "
import json,re
m=json.load(open('seeded/$s/meta.json'))
ids=[]
for c in m.get('caught_by',[]):
    x=re.match(r'(C\d\d)',c)
    if x and x.group(1) not in ids: ids.append(x.group(1))
print(' '.join(ids))")
  for c in $checks; do
    out=$(tools/seed_snap.sh $V/seeded/$s $c 2>&1)
    if echo "$out" | grep -q "^VIOLATION property=$c"; then echo "CAUGHT $s $c"; else echo "MISSED $s $c :: $(echo "$out" | grep -vE 'KNOWN-FINDING' | tail -2 | tr '\n' ' ' | cut -c1-160)"; fi
  done
done
