#!/usr/bin/env python3
"""Case generator for the ops.rs correspondence (C01, C02, C03).

Enumerates the geometry exhaustively for the chosen buffer lengths: every in-bounds (s,e)
with e-s <= carrier width, 4 order combinations, 10 carriers; per geometry point a set of data
patterns. Every random choice comes from one PRNG seeded by VERIF_SEED.
Writes the case file and returns a histogram of what was generated.
"""
import random, sys, json, collections

CARRIER_BITS = [8, 16, 32, 64, 128, 8, 16, 32, 64, 128]
CARRIER_SIGNED = [False] * 5 + [True] * 5
CARRIER_NAMES = ["u8", "u16", "u32", "u64", "u128", "i8", "i16", "i32", "i64", "i128"]


def signed_hex(v):
    return ("-" if v < 0 else "+") + format(abs(v), "x")


def rand_value(rng, car):
    bits = CARRIER_BITS[car]
    kind = rng.randrange(6)
    if CARRIER_SIGNED[car]:
        lo, hi = -(1 << (bits - 1)), (1 << (bits - 1)) - 1
        return [0, -1, lo, hi, rng.randint(lo, hi), rng.randint(lo, hi)][kind]
    hi = (1 << bits) - 1
    return [0, hi, 1, 1 << (bits - 1), rng.randint(0, hi), rng.randint(0, hi)][kind]


def gen(path, seed, lengths, walk_lengths, patterns, stride=1):
    rng = random.Random(seed)
    hist = collections.Counter()
    n = 0
    with open(path, "w") as f:
        for ln in lengths:
            nbits = 8 * ln
            for s in range(0, nbits):
                for e in range(s + 1, nbits + 1):
                    w = e - s
                    for car in range(10):
                        if w > CARRIER_BITS[car]:
                            continue
                        # thin out the wide carriers on long buffers deterministically by stride
                        if stride > 1 and ((s * 131 + e * 17 + car) % stride) != 0 and ln > 4:
                            continue
                        for be in (0, 1):
                            for msb0 in (0, 1):
                                for _ in range(patterns):
                                    data = bytes(rng.getrandbits(8) for _ in range(ln)).hex()
                                    f.write(f"L {be} {msb0} {car} {s} {e} {data}\n")
                                    v = rand_value(rng, car)
                                    data = bytes(rng.getrandbits(8) for _ in range(ln)).hex()
                                    f.write(f"S {be} {msb0} {car} {s} {e} {signed_hex(v)} {data}\n")
                                    n += 2
                                hist[f"len{ln}"] += 2 * patterns
                                hist[CARRIER_NAMES[car]] += 2 * patterns
                                hist["aligned" if s % 8 == 0 and e % 8 == 0 else "unaligned"] += 2 * patterns
                                hist[f"spans{(e - 1) // 8 - s // 8 + 1}bytes" if (e - 1) // 8 - s // 8 < 3 else "spans>=4bytes"] += 2 * patterns
        # walking-one patterns: decide the bit map exactly (each output bit is a copy of one input bit)
        for ln in walk_lengths:
            nbits = 8 * ln
            for s in range(0, nbits):
                for e in range(s + 1, nbits + 1):
                    w = e - s
                    car = min(c for c in range(5) if CARRIER_BITS[c] >= w) if w <= 128 else None
                    if car is None:
                        continue
                    for be in (0, 1):
                        for msb0 in (0, 1):
                            for bit in range(nbits):
                                d = bytearray(ln)
                                d[bit // 8] |= 1 << (bit % 8)
                                f.write(f"L {be} {msb0} {car} {s} {e} {bytes(d).hex()}\n")
                                n += 1
                            for j in range(w):
                                f.write(f"S {be} {msb0} {car} {s} {e} +{format(1 << j, 'x')} {'00' * ln}\n")
                                f.write(f"S {be} {msb0} {car} {s} {e} +0 {'ff' * ln}\n") if j == 0 else None
                                n += 1 + (1 if j == 0 else 0)
                            hist["walking"] += nbits + w + 1
    hist["total"] = n
    return dict(hist)


if __name__ == "__main__":
    path, seed, tier = sys.argv[1], int(sys.argv[2]), sys.argv[3]
    if tier == "quick":
        h = gen(path, seed, [1, 2, 3, 4, 9, 17], [1, 2, 3], 1, stride=7)
    else:
        h = gen(path, seed, list(range(1, 18)), [1, 2, 3, 4], 2, stride=1)
    print(json.dumps(h))
