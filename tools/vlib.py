"""Shared machinery for the /verif checks (see DESIGN.md section 2.1)."""
import hashlib, json, os, re, subprocess, sys, time, shutil, concurrent.futures

VERIF = os.path.dirname(os.path.dirname(os.path.abspath(__file__)))
REPO = os.environ.get("VERIF_REPO", "/repo")
# VERIF_REPO=<another checkout> (mutation tests, seeded changes, background regressions): EVERYTHING that is built from
# or written about that checkout lives under .cache/alt/ — its own cargo target dirs, work dirs, replays and evidence —
# so that nothing built from a mutated tree can ever be picked up by a normal run (only the Coq build products, which do
# not depend on /repo except through the translated tables, and the Coq lock are shared).
ALT = REPO != "/repo"
CACHE = os.path.join(VERIF, ".cache", "alt-" + re.sub(r"[^A-Za-z0-9_.-]", "_", REPO.strip("/"))) if ALT else os.path.join(VERIF, ".cache")   # one per checkout: snapshot runs on different checkouts are independent
OUTDIR = CACHE if ALT else VERIF          # evidence/ and replays/ of a run
COQ = os.path.join(CACHE, "coq") if ALT else os.path.join(VERIF, "coq")   # alt runs build in their own copy: the translated tables differ
COV = os.environ.get("VERIF_COV") == "1"   # coverage measurement of /repo under the checks' inputs (tools/coverage.sh)
TARGET = os.path.join(CACHE, "target-cov" if COV else "target")
GUARD = "device_driver_verif"
NCPU = 16
LOCK = os.path.join(VERIF, ".cache", "coq.lock")

ALLOWED_ASSUMPTIONS = set()  # no axiom is allowed: every theorem must be closed

FORBIDDEN = re.compile(
    r"\b(Admitted|admit|Axiom|Axioms|Parameter|Parameters|Conjecture|Conjectures|Hypothesis|Hypotheses|Variable|Variables|"
    r"Unset\s+Guard\s+Checking|Unset\s+Positivity\s+Checking|Unset\s+Universe\s+Checking|bypass_check|"
    r"type-in-type|impredicative-set|Admit\s+Obligations|native_compute)\b")


class Ctx:
    def __init__(self, prop, tier, seed):
        self.prop = prop
        self.tier = tier
        self.seed = seed
        self.t0 = time.time()
        self.violations = 0
        self.known = []
        self.notes = []
        os.makedirs(CACHE, exist_ok=True)
        os.makedirs(os.path.join(OUTDIR, "evidence"), exist_ok=True)
        os.makedirs(os.path.join(OUTDIR, "replays"), exist_ok=True)
        self.work = os.path.join(CACHE, "work", prop)
        os.makedirs(self.work, exist_ok=True)

    def log(self, *a):
        print(f"[{self.prop}]", *a, flush=True)


def run(cmd, cwd=None, timeout=1800, env=None, input=None):
    e = dict(os.environ)
    e.setdefault("CARGO_NET_OFFLINE", "true")
    if env:
        e.update(env)
    try:
        p = subprocess.run(cmd, cwd=cwd, env=e, input=input, stdout=subprocess.PIPE, stderr=subprocess.STDOUT,
                           timeout=timeout, text=True, shell=isinstance(cmd, str))
        return p.returncode, p.stdout
    except subprocess.TimeoutExpired as ex:
        out = ex.stdout or ""
        if isinstance(out, bytes):
            out = out.decode(errors="replace")
        return 124, out + "\n[timeout]"


# ------------------------------------------------------------------ Coq

def translate_tables():
    env = None
    if ALT:
        # a private copy of the Coq tree (sources AND build products, timestamps kept so that only what depends on a
        # changed translated table is rebuilt); the translator writes its tables there
        os.makedirs(COQ, exist_ok=True)
        run(["flock", LOCK, "rsync", "-a", "--delete", "--exclude", "Makefile*", "--exclude", ".Makefile.d",
             os.path.join(VERIF, "coq") + "/", COQ + "/"])
        env = {"VERIF_GEN_OUT": os.path.join(COQ, "gen")}
    rc, out = run([sys.executable, os.path.join(VERIF, "tools", "translate_tables.py")], env=env)
    return rc == 0, out


def coq_makefile():
    mk = os.path.join(COQ, "Makefile")
    cp = os.path.join(COQ, "_CoqProject")
    if not os.path.exists(mk) or os.path.getmtime(mk) < os.path.getmtime(cp):
        run(["flock", LOCK, "coq_makefile", "-f", "_CoqProject", "-o", "Makefile"], cwd=COQ)


def coq_build(targets, timeout=2400):
    """Full .vo build of the given targets (paths relative to coq/, ending in .vo)."""
    ok, out = translate_tables()
    if not ok:
        return False, "translator failed:\n" + out
    coq_makefile()
    # 24 GB address-space cap per coqc: a runaway vm_compute must not take the machine (and every other check) down
    rc, out2 = run("ulimit -v 24000000; flock %s make -j%d %s" % (LOCK, NCPU, " ".join(targets)), cwd=COQ, timeout=timeout)
    return rc == 0, out + out2


def strip_coq_comments(src):
    out = []
    depth = 0
    i = 0
    n = len(src)
    while i < n:
        if src.startswith("(*", i):
            depth += 1
            i += 2
        elif src.startswith("*)", i) and depth > 0:
            depth -= 1
            i += 2
        else:
            if depth == 0:
                out.append(src[i])
            i += 1
    return "".join(out)


def dep_cone(prop_vo):
    """All .v files the given props/Cxx.vo depends on (from coq_makefile's dependency file)."""
    depfile = os.path.join(COQ, ".Makefile.d")
    deps = {}
    if os.path.exists(depfile):
        txt = open(depfile).read().replace("\\\n", " ")
        for line in txt.splitlines():
            if ":" not in line:
                continue
            lhs, rhs = line.split(":", 1)
            for t in lhs.split():
                if t.endswith(".vo"):
                    deps[t] = [d for d in rhs.split() if d.endswith(".vo")]
    seen = set()
    stack = [prop_vo]
    while stack:
        t = stack.pop()
        if t in seen:
            continue
        seen.add(t)
        stack.extend(deps.get(t, []))
    return sorted(x[:-1] for x in seen if not x.startswith("/"))  # .vo -> .v


def hygiene(files):
    """Forbidden vernacular anywhere in the given .v files (comments stripped). Section-local
    Variable/Hypothesis are allowed only inside a Section."""
    bad = []
    for f in files:
        p = os.path.join(COQ, f)
        if not os.path.exists(p):
            continue
        src = strip_coq_comments(open(p).read())
        # remove strings
        src = re.sub(r'"[^"]*"', '""', src)
        depth = 0
        for ln, line in enumerate(src.splitlines(), 1):
            if re.match(r"\s*Section\b", line):
                depth += 1
            if re.match(r"\s*End\b", line) and depth > 0:
                depth -= 1
            for m in FORBIDDEN.finditer(line):
                w = m.group(1)
                if w.startswith(("Variable", "Hypothes")) and depth > 0:
                    continue
                bad.append(f"{f}:{ln}: {w}")
    return bad


def theorem_names(vfile):
    src = strip_coq_comments(open(os.path.join(COQ, vfile)).read())
    return re.findall(r"^\s*(?:Theorem|Lemma|Corollary|Fact|Proposition)\s+([A-Za-z0-9_']+)", src, flags=re.M)


def count_obligations(files):
    n = 0
    for f in files:
        p = os.path.join(COQ, f)
        if os.path.exists(p):
            src = strip_coq_comments(open(p).read())
            n += len(re.findall(r"^\s*(?:Theorem|Lemma|Corollary|Fact|Proposition|Example)\s+[A-Za-z0-9_']+", src, flags=re.M))
    return n


def print_assumptions(prop, names, workdir):
    """Re-runs Print Assumptions for every property theorem against the compiled .vo files."""
    v = os.path.join(workdir, f"Assum_{prop}.v")
    with open(v, "w") as f:
        f.write(f"From DDProps Require Import {prop}.\n")
        for n in names:
            f.write(f'Goal True. idtac "@@ {n}". Abort.\nPrint Assumptions {n}.\n')
    rc, out = run(["coqc", "-Q", os.path.join(COQ, "theories"), "DD", "-Q", os.path.join(COQ, "gen"), "DDGen",
                   "-Q", os.path.join(COQ, "props"), "DDProps", v], cwd=workdir, timeout=600)
    res = {}
    cur = None
    for line in out.splitlines():
        if line.startswith("@@ "):
            cur = line[3:].strip()
            res[cur] = []
        elif cur is not None and line.strip():
            res[cur].append(line.strip())
    return rc == 0, res, out


def coq_gate(ctx, prop=None, timeout=2400):
    """Build props/<prop>.vo, run the hygiene gate and Print Assumptions.
    Returns dict(ok, reason, obligations, theorems, assumptions, files, log)."""
    prop = prop or ctx.prop
    target = f"props/{prop}.vo"
    ok, log = coq_build([target], timeout=timeout)
    info = {"ok": ok, "log": log, "reason": None, "theorems": [], "assumptions": {}, "files": [], "obligations": 0}
    if not ok:
        m = re.search(r'File "([^"]+)", line (\d+)[^\n]*\n(Error:[^\n]*(?:\n[^\n]+)?)', log)
        info["reason"] = "coq build failed: " + (m.group(0) if m else log[-800:])
        return info
    files = dep_cone(target)
    info["files"] = files
    bad = hygiene(files)
    if bad:
        info["ok"] = False
        info["reason"] = "hygiene gate: " + "; ".join(bad[:10])
        return info
    names = theorem_names(f"props/{prop}.v")
    info["theorems"] = names
    ok2, assum, out = print_assumptions(prop, names, ctx.work)
    info["assumptions"] = assum
    if not ok2:
        info["ok"] = False
        info["reason"] = "Print Assumptions run failed: " + out[-500:]
        return info
    for n in names:
        lines = assum.get(n)
        if lines is None or not (len(lines) == 1 and lines[0].startswith("Closed under the global context")):
            info["ok"] = False
            info["reason"] = f"theorem {n} is not closed under the global context: {lines}"
            return info
    info["obligations"] = count_obligations(files)
    return info


def coqchk(prop, timeout=3000):
    rc, out = run(["coqchk", "-silent", "-o", "-Q", "theories", "DD", "-Q", "gen", "DDGen", "-Q", "props", "DDProps",
                   f"DDProps.{prop}"], cwd=COQ, timeout=timeout)
    return rc == 0, out


# ------------------------------------------------------------------ OCaml / cargo

def ocaml_build(name, extract_v, driver_ml, timeout=900):
    """Extract coq/extract/<extract_v> into .cache/ocaml/<name>/ and build <driver_ml> against it."""
    d = os.path.join(CACHE, "ocaml", name)
    os.makedirs(d, exist_ok=True)
    rc, out = run(["coqc", "-Q", os.path.join(COQ, "theories"), "DD", "-Q", os.path.join(COQ, "gen"), "DDGen",
                   os.path.join(COQ, "extract", extract_v)], cwd=d, timeout=timeout)
    if rc != 0:
        return None, out
    model = [f for f in os.listdir(d) if f.endswith("_model.ml")][0]
    modname = model[:-3]
    with open(os.path.join(d, "zconv_inc.ml"), "w") as f:
        f.write(f"open {modname.capitalize()}\n")
        f.write(open(os.path.join(VERIF, "ocaml", "zconv.ml")).read())
    shutil.copy(os.path.join(VERIF, "ocaml", driver_ml), os.path.join(d, driver_ml))
    exe = os.path.join(d, driver_ml[:-3])
    rc, out2 = run(["ocamlfind", "ocamlopt", "-w", "-a", "-package", "str", "-linkpkg", modname + ".mli", modname + ".ml",
                    "zconv_inc.ml", driver_ml, "-o", exe], cwd=d, timeout=timeout)
    if rc != 0:
        return None, out + out2
    return exe, out + out2


def cargo_build(pkgs, release=False, timeout=1800, extra_env=None):
    """Build harness packages against /repo's current working tree (path deps)."""
    h = os.path.join(VERIF, "harness")
    if REPO != "/repo":
        # VERIF_REPO=<another checkout> (background seed regressions on a snapshot): same harness sources, path
        # dependencies redirected, in a scratch copy so that the tracked Cargo.toml files stay as they are
        alt = os.path.join(CACHE, "harness_alt")
        shutil.rmtree(alt, ignore_errors=True)
        shutil.copytree(h, alt)
        for root, _d, files in os.walk(alt):
            for fn in files:
                if fn == "Cargo.toml":
                    fp = os.path.join(root, fn)
                    txt = open(fp).read().replace('"/repo/', '"%s/' % REPO)
                    open(fp, "w").write(txt)
        h = alt
    lock = os.path.join(h, "Cargo.lock")
    if not os.path.exists(lock):
        shutil.copy(os.path.join(REPO, "Cargo.lock"), lock)
    cmd = ["cargo"] + (["+nightly"] if COV else []) + ["build", "--offline"] + (["--release"] if release else [])
    for p in pkgs:
        cmd += ["-p", p]
    env = {"CARGO_TARGET_DIR": TARGET, "RUSTFLAGS": f"--cfg {GUARD}" + (" -C instrument-coverage" if COV else "")}
    if extra_env:
        env.update(extra_env)
    rc, out = run(cmd, cwd=h, timeout=timeout, env=env)
    return rc == 0, out


def bin_path(name, release=False):
    return os.path.join(TARGET, "release" if release else "debug", name)


def run_sharded(exe_args_fn, lines, nshards=NCPU, workdir=None, timeout=3000, tag="shard"):
    """Split `lines` into nshards contiguous chunks, run exe on each chunk file in parallel, and
    return the concatenated output lines (one per input line expected)."""
    n = len(lines)
    if n == 0:
        return []
    nshards = max(1, min(nshards, (n + 199) // 200))
    size = (n + nshards - 1) // nshards
    files = []
    for i in range(nshards):
        chunk = lines[i * size:(i + 1) * size]
        if not chunk:
            continue
        p = os.path.join(workdir, f"{tag}_{i}.txt")
        with open(p, "w") as f:
            f.write("\n".join(chunk) + "\n")
        files.append(p)

    def one(p):
        rc, out = run(exe_args_fn(p), timeout=timeout)
        return rc, out

    outs = []
    with concurrent.futures.ThreadPoolExecutor(max_workers=len(files)) as ex:
        for rc, out in ex.map(one, files):
            outs.append((rc, out))
    res = []
    for rc, out in outs:
        res.extend(out.splitlines())
    for p in files:
        try:
            os.remove(p)
        except OSError:
            pass
    return res


# ------------------------------------------------------------------ findings / reporting

def load_known_findings(prop):
    p = os.path.join(VERIF, "KNOWN_FINDINGS.jsonl")
    out = []
    if os.path.exists(p):
        for line in open(p):
            line = line.strip()
            if not line or line.startswith("#"):
                continue
            try:
                d = json.loads(line)
            except json.JSONDecodeError:
                continue
            if (d.get("property") == prop or prop in d.get("also", [])) and d.get("status") == "open":
                out.append(d)
    return out


def write_replay(ctx, obj):
    blob = json.dumps(obj, sort_keys=True, indent=1)
    h = hashlib.sha1(blob.encode()).hexdigest()[:12]
    p = os.path.join(OUTDIR, "replays", f"{ctx.prop}-{h}.json")
    with open(p, "w") as f:
        f.write(blob + "\n")
    return p


def violation(ctx, replay_obj, no_input=False):
    replay_obj = dict(replay_obj)
    replay_obj.setdefault("property", ctx.prop)
    replay_obj.setdefault("seed", ctx.seed)
    replay_obj.setdefault("tier", ctx.tier)
    p = write_replay(ctx, replay_obj)
    ctx.violations += 1
    print(f"VIOLATION property={ctx.prop} replay={p}" + (" no-failing-input-found" if no_input else ""), flush=True)
    return p


def known_finding(ctx, finding, what):
    ctx.known.append(finding.get("id", "?"))
    print(f"KNOWN-FINDING: property={ctx.prop} {finding.get('id','')} {what}", flush=True)


def write_evidence(ctx, coq_info, coverage, assumptions=None, checker_cmd=None):
    cov = dict(coverage)
    ob = coq_info.get("obligations", 0) if coq_info else 0
    cov.setdefault("obligations", ob)
    cov.setdefault("discharged", ob if (coq_info and coq_info.get("ok")) else 0)
    cov.setdefault("checker_cmd", checker_cmd or f"cd /verif/coq && make props/{ctx.prop}.vo (coqc 8.16.1, full .vo) + Print Assumptions per property theorem")
    tb = [
        "Coq 8.16.1 kernel (coqc, vm_compute inside the kernel; no native_compute); coqchk in the thorough tier",
        "axioms: none (every property theorem prints 'Closed under the global context')",
        "hand-written Gallina model tied to /repo by the correspondence check described in 'rule'",
        "tools/translate_tables.py (regex translator of impl_dedup_cast!/capability tables) where a gen/*.v file is in the cone",
        "extraction: ExtrOcamlBasic only; ocaml/zconv.ml and the *_driver.ml files; OCaml 4.13.1",
        "Rust harness under /verif/harness, python generators under /verif/tools, rustc/cargo as observers",
    ]
    cov.setdefault("trusted_base", tb)
    if coq_info:
        cov.setdefault("property_theorems", coq_info.get("theorems", []))
        cov.setdefault("print_assumptions", {k: " ".join(v) for k, v in coq_info.get("assumptions", {}).items()})
        cov.setdefault("coq_files_in_cone", coq_info.get("files", []))
    cov.setdefault("known_findings_reconfirmed", ctx.known)
    if "exhaustive" in cov and not isinstance(cov["exhaustive"], bool):
        cov["exhaustive_detail"] = cov["exhaustive"]
        cov["exhaustive"] = False
    ev = {
        "property_id": ctx.prop,
        "tier": ctx.tier,
        "seed": ctx.seed,
        "level": "proof",
        "coverage": cov,
        "assumptions": assumptions or [],
        "wall_s": round(time.time() - ctx.t0, 2),
        "violations": ctx.violations,
    }
    p = os.path.join(OUTDIR, "evidence", f"{ctx.prop}.json")
    with open(p, "w") as f:
        json.dump(ev, f, indent=1, sort_keys=True)
        f.write("\n")
    return p


def finish(ctx):
    if ctx.violations:
        sys.exit(1)
    ctx.log(f"OK ({round(time.time() - ctx.t0, 1)} s)")
    sys.exit(0)


# ------------------------------------------------------------------ evaluating the model inside Coq

def coq_string(s):
    return '"' + s.replace('"', '""') + '"'


def coq_eval_strings(ctx, preamble, terms, shard_size=150, timeout=1200, tag="cases"):
    """Evaluate Coq terms of type `string` with vm_compute inside coqc.
    preamble: vernacular (Require Imports, Open Scope ...); terms: list of (id, term_text).
    Returns dict id -> python string ("<<COQ-ERROR ...>>" for a shard that failed)."""
    if not terms:
        return {}
    shards = [terms[i:i + shard_size] for i in range(0, len(terms), shard_size)]
    files = []
    for si, sh in enumerate(shards):
        p = os.path.join(ctx.work, f"{tag}_{si}.v")
        with open(p, "w") as f:
            f.write(preamble + "\nSet Printing Width 100000000.\nSet Printing Depth 100000000.\n")
            for k, (cid, term) in enumerate(sh):
                f.write(f"Definition o{k} : String.string := Eval vm_compute in ({term}).\nPrint o{k}.\n")
        files.append((p, sh))

    def one(item):
        p, sh = item
        rc, out = run(["coqc", "-noglob", "-Q", os.path.join(COQ, "theories"), "DD", "-Q", os.path.join(COQ, "gen"), "DDGen", p],
                      cwd=ctx.work, timeout=timeout)
        return rc, out

    res = {}
    with concurrent.futures.ThreadPoolExecutor(max_workers=NCPU) as ex:
        for (p, sh), (rc, out) in zip(files, ex.map(one, files)):
            got = {}
            for m in re.finditer(r'^o(\d+) = "((?:[^"]|"")*)"\s*\n\s*: String\.string|^o(\d+) = "((?:[^"]|"")*)"\s*\n\s*: string', out, flags=re.M):
                idx = int(m.group(1) if m.group(1) is not None else m.group(3))
                body = m.group(2) if m.group(2) is not None else m.group(4)
                got[idx] = body.replace('""', '"')
            for k, (cid, term) in enumerate(sh):
                if k in got:
                    res[cid] = got[k]
                else:
                    res[cid] = "<<COQ-ERROR rc=%d %s>>" % (rc, out[-400:].replace("\n", " "))
            for ext in (".v", ".vo", ".vok", ".vos", ".glob"):
                try:
                    os.remove(p[:-2] + ext)
                except OSError:
                    pass
    return res
