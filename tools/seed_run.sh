#!/bin/bash
# Usage: tools/seed_run.sh <seed-dir-with-patch.diff> <check ids...>
# Applies the seeded change to /repo, runs the given checks, and undoes it straight afterwards.
S="$1"; shift
cd /verif
# evidence files written while a seeded change is applied must not survive (they describe a mutated tree)
rm -rf .cache/evidence_backup && cp -r evidence .cache/evidence_backup
git -C /repo apply "$S/patch.diff" || { echo "patch does not apply"; exit 2; }
for c in "$@"; do
  echo "--- ./check $c (seed $(basename $S))"
  timeout 1200 ./check $c 2>&1 | grep -E "VIOLATION|KNOWN-FINDING|OK \(|Traceback|Error" | head -6
  git -C /repo diff --quiet && echo "!! the patch vanished from /repo during the run (concurrent checkout) — result not valid"
done
git -C /repo apply -R "$S/patch.diff" 2>/dev/null || git -C /repo checkout -- .
git -C /repo status --short | head -3
rm -rf evidence && mv .cache/evidence_backup evidence
