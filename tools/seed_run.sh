#!/bin/bash
# Usage: tools/seed_run.sh <seed-dir-with-patch.diff> <check ids...>
# Applies the seeded change to /repo, runs the given checks, and undoes it straight afterwards.
S="$1"; shift
cd "$(dirname "$0")/.."
V=$(pwd)
R=${VERIF_REPO:-/repo}
# evidence files written while a seeded change is applied must not survive (they describe a mutated tree)
mkdir -p .cache; rm -rf .cache/evidence_backup && cp -r evidence .cache/evidence_backup
git -C $R apply "$S/patch.diff" || { echo "patch does not apply"; exit 2; }
for c in "$@"; do
  echo "--- ./check $c (seed $(basename $S))"
  timeout 1200 ./check $c 2>&1 | grep -E "VIOLATION|KNOWN-FINDING|OK \(|Traceback|Error" | head -6
  git -C $R diff --quiet && echo "!! the patch vanished from /repo during the run (concurrent checkout) — result not valid"
done
git -C $R apply -R "$S/patch.diff" 2>/dev/null || git -C $R checkout -- .
git -C $R status --short | head -3
rm -rf evidence && mv .cache/evidence_backup evidence
