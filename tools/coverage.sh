#!/bin/bash
# Measures which lines of /repo's generation/ and device-driver/ sources the checks' inputs reach (NOT a check, NOT
# evidence for a property: a tool for finding blind spots of the generators -- "generator quality bounds the tie").
# Usage: tools/coverage.sh [tier] [check ids...]      (default: quick, all checks)
# Builds the harness runners with nightly + -C instrument-coverage into .cache/target-cov, runs the checks with
# VERIF_COV=1, merges the profiles and writes .cache/cov/report.txt (per file) and .cache/cov/uncovered.txt
# (every source line of /repo that no input of any check executed).
cd /verif
TIER=${1:-quick}; shift
CHECKS="$@"
[ -z "$CHECKS" ] && CHECKS=$(python3 -c "import json;print(' '.join(c['property_id'] for c in json.load(open('MANIFEST.json'))['checks']))")
BIN=$(ls -d ~/.rustup/toolchains/nightly-x86_64-unknown-linux-gnu/lib/rustlib/x86_64-unknown-linux-gnu/bin)
COVDIR=/verif/.cache/cov
rm -rf $COVDIR/raw; mkdir -p $COVDIR/raw
rm -rf .cache/evidence_backup && cp -r evidence .cache/evidence_backup
export VERIF_COV=1 LLVM_PROFILE_FILE="$COVDIR/raw/%p-%8m.profraw"
for c in $CHECKS; do
  s=$(date +%s)
  out=$(timeout 3000 ./check $c --tier $TIER 2>&1); rc=$?
  echo "$c rc=$rc $(( $(date +%s) - s ))s $(ls $COVDIR/raw | wc -l) profiles"
  # merge as we go: raw profiles are large
  ls $COVDIR/raw/*.profraw >/dev/null 2>&1 && { $BIN/llvm-profdata merge -sparse $COVDIR/raw/*.profraw $( [ -f $COVDIR/all.profdata.$TIER ] && echo $COVDIR/all.profdata.$TIER ) -o $COVDIR/tmp.profdata && mv $COVDIR/tmp.profdata $COVDIR/all.profdata.$TIER; rm -f $COVDIR/raw/*.profraw; }
done
unset VERIF_COV LLVM_PROFILE_FILE
rm -rf evidence && mv .cache/evidence_backup evidence      # evidence must come from the normal build
OBJS=""
for b in gen_runner lib_runner ops_runner proto_runner; do
  for d in debug release; do [ -x .cache/target-cov/$d/$b ] && OBJS="$OBJS -object .cache/target-cov/$d/$b"; done
done
OBJS=${OBJS# -object }
$BIN/llvm-cov report $OBJS -instr-profile=$COVDIR/all.profdata.$TIER --ignore-filename-regex='(\.cargo|rustc|/verif/)' > $COVDIR/report.$TIER.txt 2>$COVDIR/report.err
$BIN/llvm-cov show $OBJS -instr-profile=$COVDIR/all.profdata.$TIER --ignore-filename-regex='(\.cargo|rustc|/verif/)' --show-line-counts-or-regions > $COVDIR/show.$TIER.txt 2>>$COVDIR/report.err
python3 tools/cov_uncovered.py $COVDIR/show.$TIER.txt > $COVDIR/uncovered.$TIER.txt
tail -n 40 $COVDIR/report.$TIER.txt
