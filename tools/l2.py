"""L2: behaviour of COMPILED generator output.  Builds one scratch crate per batch (under
/verif/.cache/work/<prop>/<name>, never /tmp) containing generated drivers as modules, a recording mock
(`crate::mock`) and a caller-supplied main.rs; runs it and returns stdout.

Generated code is obtained from harness/gen_runner with want=["pretty"] and wrapped as
    pub mod <modname> { #![allow(...)] use crate::convtypes::*; <code> }
so `crate::...` paths in definitions must be absolute from the crate root (e.g. `crate::convtypes::Ty`).
"""
import os, shutil, subprocess, json
import vlib

TARGET_L2 = os.path.join(vlib.CACHE, "target-l2")

MOCK_RS = r'''
//! Recording mock interfaces shared by all L2 probe crates.
#![allow(dead_code)]
use core::marker::PhantomData;
use device_driver::*;

#[derive(Debug, Clone, PartialEq, Eq)]
pub struct MockErr(pub usize);

/// Logs every interface call as one line: `<kind> <address> <size_bits...> <hex bytes>`.
/// `fail_at = Some(n)`: the n-th call (0-based) returns Err(MockErr(n)).
/// reads are filled with `fill` (cycled) XOR nothing; commands' output likewise.
pub struct Mock<RA, CA, BA> {
    pub log: Vec<String>,
    pub fill: Vec<u8>,
    pub fail_at: Option<usize>,
    pub n: usize,
    pub buf_accept: usize,
    _p: PhantomData<(RA, CA, BA)>,
}

pub fn hex(b: &[u8]) -> String { b.iter().map(|x| format!("{:02x}", x)).collect() }

impl<RA, CA, BA> Mock<RA, CA, BA> {
    pub fn new() -> Self { Self { log: Vec::new(), fill: vec![0], fail_at: None, n: 0, buf_accept: usize::MAX, _p: PhantomData } }
    fn tick(&mut self) -> Result<(), MockErr> {
        let k = self.n; self.n += 1;
        if self.fail_at == Some(k) { Err(MockErr(k)) } else { Ok(()) }
    }
    fn fill_into(&self, data: &mut [u8]) { for (i, d) in data.iter_mut().enumerate() { *d = self.fill[i % self.fill.len()]; } }
}

impl<RA: Copy + Into<i128>, CA, BA> RegisterInterface for Mock<RA, CA, BA> {
    type Error = MockErr;
    type AddressType = RA;
    fn write_register(&mut self, address: RA, size_bits: u32, data: &[u8]) -> Result<(), MockErr> {
        self.log.push(format!("WR {} {} {}", address.into(), size_bits, hex(data)));
        self.tick()
    }
    fn read_register(&mut self, address: RA, size_bits: u32, data: &mut [u8]) -> Result<(), MockErr> {
        self.log.push(format!("RD {} {} {}", address.into(), size_bits, hex(data)));
        self.tick()?;
        self.fill_into(data);
        Ok(())
    }
}

impl<RA, CA: Copy + Into<i128>, BA> CommandInterface for Mock<RA, CA, BA> {
    type Error = MockErr;
    type AddressType = CA;
    fn dispatch_command(&mut self, address: CA, size_bits_in: u32, input: &[u8], size_bits_out: u32, output: &mut [u8]) -> Result<(), MockErr> {
        self.log.push(format!("CMD {} {} {} {} {}", address.into(), size_bits_in, hex(input), size_bits_out, hex(output)));
        self.tick()?;
        self.fill_into(output);
        Ok(())
    }
}

impl<RA, CA, BA> BufferInterfaceError for Mock<RA, CA, BA> { type Error = MockErr; }

impl<RA, CA, BA: Copy + Into<i128>> BufferInterface for Mock<RA, CA, BA> {
    type AddressType = BA;
    fn write(&mut self, address: BA, buf: &[u8]) -> Result<usize, MockErr> {
        self.log.push(format!("BW {} {}", address.into(), hex(buf)));
        self.tick()?;
        Ok(buf.len().min(self.buf_accept))
    }
    fn flush(&mut self, address: BA) -> Result<(), MockErr> {
        self.log.push(format!("BF {}", address.into()));
        self.tick()
    }
    fn read(&mut self, address: BA, buf: &mut [u8]) -> Result<usize, MockErr> {
        self.log.push(format!("BR {} {}", address.into(), buf.len()));
        self.tick()?;
        let n = buf.len().min(self.buf_accept);
        self.fill_into(&mut buf[..n]);
        Ok(n)
    }
}

// ---- async twins: same log lines, same answers; every call suspends once before it touches the log
pub struct YieldOnce(bool);
impl core::future::Future for YieldOnce {
    type Output = ();
    fn poll(mut self: core::pin::Pin<&mut Self>, cx: &mut core::task::Context<'_>) -> core::task::Poll<()> {
        if self.0 { core::task::Poll::Ready(()) } else { self.0 = true; cx.waker().wake_by_ref(); core::task::Poll::Pending }
    }
}
pub fn yield_once() -> YieldOnce { YieldOnce(false) }

impl<RA: Copy + Into<i128>, CA, BA> AsyncRegisterInterface for Mock<RA, CA, BA> {
    type Error = MockErr;
    type AddressType = RA;
    async fn write_register(&mut self, address: RA, size_bits: u32, data: &[u8]) -> Result<(), MockErr> {
        yield_once().await;
        RegisterInterface::write_register(self, address, size_bits, data)
    }
    async fn read_register(&mut self, address: RA, size_bits: u32, data: &mut [u8]) -> Result<(), MockErr> {
        yield_once().await;
        RegisterInterface::read_register(self, address, size_bits, data)
    }
}

impl<RA, CA: Copy + Into<i128>, BA> AsyncCommandInterface for Mock<RA, CA, BA> {
    type Error = MockErr;
    type AddressType = CA;
    async fn dispatch_command(&mut self, address: CA, size_bits_in: u32, input: &[u8], size_bits_out: u32, output: &mut [u8]) -> Result<(), MockErr> {
        yield_once().await;
        CommandInterface::dispatch_command(self, address, size_bits_in, input, size_bits_out, output)
    }
}

impl<RA, CA, BA: Copy + Into<i128>> AsyncBufferInterface for Mock<RA, CA, BA> {
    type AddressType = BA;
    async fn write(&mut self, address: BA, buf: &[u8]) -> Result<usize, MockErr> { yield_once().await; BufferInterface::write(self, address, buf) }
    async fn flush(&mut self, address: BA) -> Result<(), MockErr> { yield_once().await; BufferInterface::flush(self, address) }
    async fn read(&mut self, address: BA, buf: &mut [u8]) -> Result<usize, MockErr> { yield_once().await; BufferInterface::read(self, address, buf) }
}

/// Minimal executor: polls until Ready (the mock's futures wake themselves).
pub fn block_on<F: core::future::Future>(f: F) -> F::Output {
    use core::task::{Context, Poll, RawWaker, RawWakerVTable, Waker};
    fn clone(_: *const ()) -> RawWaker { RawWaker::new(core::ptr::null(), &VT) }
    fn noop(_: *const ()) {}
    static VT: RawWakerVTable = RawWakerVTable::new(clone, noop, noop, noop);
    let waker = unsafe { Waker::from_raw(RawWaker::new(core::ptr::null(), &VT)) };
    let mut cx = Context::from_waker(&waker);
    let mut f = core::pin::pin!(f);
    for _ in 0..1_000_000 {
        if let Poll::Ready(v) = f.as_mut().poll(&mut cx) { return v; }
    }
    panic!("block_on: future still pending after 1000000 polls");
}

/// Runs `f`, catching a panic; returns Err(message) on panic.
pub fn catch<R>(f: impl FnOnce() -> R) -> Result<R, String> {
    let r = std::panic::catch_unwind(std::panic::AssertUnwindSafe(f));
    r.map_err(|e| {
        if let Some(s) = e.downcast_ref::<&str>() { s.to_string() }
        else if let Some(s) = e.downcast_ref::<String>() { s.clone() }
        else { "panic".to_string() }
    })
}
'''

CONVTYPES_RS = r'''
//! User conversion types available to generated code as `crate::convtypes::<T>` (and via `use crate::convtypes::*`).
#![allow(dead_code)]
macro_rules! conv_ty {
    ($name:ident, $($t:ty),*) => {
        #[derive(Debug, Clone, Copy, PartialEq, Eq)]
        pub struct $name(pub i128);
        $( impl From<$t> for $name { fn from(v: $t) -> Self { $name(v as i128) } }
           impl From<$name> for $t { fn from(v: $name) -> Self { v.0 as $t } } )*
    };
}
conv_ty!(Ty, u8, u16, u32, u64, u128, i8, i16, i32, i64, i128);
conv_ty!(Other, u8, u16, u32, u64, u128, i8, i16, i32, i64, i128);

/// A fallible user type: values >= 100 are rejected.
#[derive(Debug, Clone, Copy, PartialEq, Eq)]
pub struct TryTy(pub i128);
macro_rules! try_ty { ($($t:ty),*) => { $(
    impl TryFrom<$t> for TryTy { type Error = (); fn try_from(v: $t) -> Result<Self, ()> { if (v as i128) < 100 { Ok(TryTy(v as i128)) } else { Err(()) } } }
    impl From<TryTy> for $t { fn from(v: TryTy) -> Self { v.0 as $t } } )* } }
try_ty!(u8, u16, u32, u64, u128, i8, i16, i32, i64, i128);

// the user's types must be printable when the definition's DefmtFeature is switched on
#[cfg(feature = "defmt")]
mod defmt_impls {
    use super::*;
    impl defmt::Format for Ty { fn format(&self, f: defmt::Formatter) { defmt::write!(f, "Ty({})", self.0) } }
    impl defmt::Format for Other { fn format(&self, f: defmt::Formatter) { defmt::write!(f, "Other({})", self.0) } }
    impl defmt::Format for TryTy { fn format(&self, f: defmt::Formatter) { defmt::write!(f, "TryTy({})", self.0) } }
}
'''

ALLOW = "#![allow(unused, dead_code, non_camel_case_types, non_snake_case, clippy::all, unexpected_cfgs)]"


def crate_dir(ctx, name):
    return os.path.join(ctx.work, name)


def write_crate(ctx, name, modules, main_rs, features=None, no_std_modules=False, with_defmt=False):
    """modules: dict modname -> generated Rust source (items). Returns crate dir."""
    d = crate_dir(ctx, name)
    src = os.path.join(d, "src")
    os.makedirs(src, exist_ok=True)
    # remove stale module files
    for f in os.listdir(src):
        if f.endswith(".rs"):
            os.remove(os.path.join(src, f))
    feats = features or []
    cargo = f"""[package]
name = "{name}"
version = "0.0.0"
edition = "2021"

[dependencies]
device-driver = {{ path = "{vlib.REPO}/device-driver", default-features = false }}
embedded-io = "0.6.1"
embedded-io-async = "0.6.1"
{'defmt = { version = "0.3", optional = true }' if with_defmt else ''}

[features]
{chr(10).join((f'{f} = ["dep:defmt", "device-driver/defmt-03"]' if (with_defmt and f == "defmt") else f'{f} = []') for f in feats)}

[workspace]

[profile.dev]
debug = false
opt-level = 0
overflow-checks = true
debug-assertions = true
incremental = false

[profile.release]
opt-level = 1
overflow-checks = false
debug-assertions = false
incremental = false
"""
    with open(os.path.join(d, "Cargo.toml"), "w") as f:
        f.write(cargo)
    shutil.copy(os.path.join(vlib.REPO, "Cargo.lock"), os.path.join(d, "Cargo.lock"))
    with open(os.path.join(src, "mock.rs"), "w") as f:
        f.write(MOCK_RS)
    with open(os.path.join(src, "convtypes.rs"), "w") as f:
        f.write(CONVTYPES_RS)
    mods = ""
    for m, code in modules.items():
        with open(os.path.join(src, f"{m}.rs"), "w") as f:
            f.write("#![allow(unused, dead_code, non_camel_case_types, non_snake_case, unexpected_cfgs)]\nuse crate::convtypes::*;\n" + code)
        mods += f"pub mod {m};\n"
    with open(os.path.join(src, "main.rs"), "w") as f:
        f.write(ALLOW + "\npub mod mock;\npub mod convtypes;\n" + mods + "\n" + main_rs)
    return d


def build(ctx, name, release=False, check_only=False, timeout=1800, message_format_json=False, cargo_features=None):
    d = crate_dir(ctx, name)
    cmd = ["cargo", "check" if check_only else "build", "--offline"] + (["--release"] if release else [])
    if cargo_features:
        cmd += ["--features", ",".join(cargo_features)]
    if message_format_json:
        cmd += ["--message-format=json"]
    rc, out = vlib.run(cmd, cwd=d, timeout=timeout,
                       env={"CARGO_TARGET_DIR": TARGET_L2, "RUSTFLAGS": f"--cfg {vlib.GUARD} -Awarnings"})
    return rc == 0, out


def run_bin(ctx, name, args=None, release=False, timeout=600):
    exe = os.path.join(TARGET_L2, "release" if release else "debug", name)
    p = subprocess.run([exe] + (args or []), stdout=subprocess.PIPE, stderr=subprocess.PIPE, timeout=timeout)
    return p.returncode, p.stdout.decode(errors="replace"), p.stderr.decode(errors="replace")


def cleanup(ctx, name):
    shutil.rmtree(crate_dir(ctx, name), ignore_errors=True)
