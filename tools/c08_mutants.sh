#!/bin/bash
# Mutation sanity for ./check C08 WITHOUT touching /repo: works on a private copy of the repository and a private
# build of harness/gen_runner (other agents build against /repo and share /verif/.cache/target).
#   tools/c08_mutants.sh            runs the mutants a, b, c (+ r: runtime write() starts from zero, caught by L2)
# Every mutant must make the check print VIOLATION (exit 1); the script prints one line per mutant.
set -u
M=/verif/.cache/c08/mut
rm -rf $M; mkdir -p $M/harness
rsync -a --exclude target --exclude .git /repo/ $M/repo/
cp -r /verif/harness/gen_runner $M/harness/gen_runner
cp /verif/harness/Cargo.lock $M/harness/Cargo.lock
cat > $M/harness/Cargo.toml <<'TOML'
[workspace]
resolver = "2"
members = ["gen_runner"]
[profile.dev]
debug = false
opt-level = 1
overflow-checks = true
debug-assertions = true
TOML
sed -i "s#/repo/generation#$M/repo/generation#" $M/harness/gen_runner/Cargo.toml
build() { (cd $M/harness && CARGO_NET_OFFLINE=true CARGO_TARGET_DIR=$M/target RUSTFLAGS="--cfg device_driver_verif -Awarnings" cargo build --offline -p gen_runner 2>&1 | tail -1); }
# restored files keep /repo's old mtime, which cargo would take for "unchanged": touch the sources
restore() { rsync -a --exclude target --exclude .git /repo/ $M/repo/; find $M/repo/generation $M/repo/device-driver -name '*.rs' -exec touch {} +; }
mutate() { python3 - "$1" <<'PY'
import sys
M="/verif/.cache/c08/mut/repo/"
which=sys.argv[1]
def sub(path, old, new, count=1):
    s=open(M+path).read(); assert s.count(old)>=1, (path, old); open(M+path,"w").write(s.replace(old,new,count))
if which=="a":   # drop final_array.reverse() for BE in the integer form
    sub("generation/src/mir/passes/reset_values_converted.rs",
        "            if target_byte_order == ByteOrder::BE {\n                final_array.reverse();\n            }\n", "")
elif which=="b": # off by one in the integer form's range check
    sub("generation/src/mir/passes/reset_values_converted.rs", "!array_view[size_bits as usize..].any()", "!array_view[size_bits as usize + 1..].any()")
elif which=="c": # refs use `new` even with a reset override
    sub("generation/src/mir/lir_transform.rs",
        "                        register_reset_value_function =\n                            format_ident!(\"new_as_{}\", name.to_case(convert_case::Case::Snake));\n", "")
elif which=="r": # runtime: write() starts from zero instead of the constructor handed over
    sub("device-driver/src/register.rs", "let mut register = (self.register_new_with_reset)();", "let mut register = Register::new_with_zero();")
PY
}
for m in ${@:-a b c r}; do
  restore; mutate $m; build >/dev/null
  out=$(cd /verif && C08_GEN_RUNNER=$M/target/debug/gen_runner VERIF_REPO=$M/repo ./check C08 2>&1 | grep VIOLATION | head -1)
  echo "mutant $m: ${out:-NOT CAUGHT}"
done
rm -rf $M
