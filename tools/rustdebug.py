"""Parser for Rust `{:?}` / `{:#?}` Debug output (structs, tuple structs/variants, unit variants,
Vec/slices, Option, strings, integers, ranges) into python values, and the MIR -> Coq term renderer.

Parsed representation:
  struct  -> {"_": "Name", field: value, ...}
  tuple   -> {"_": "Name", "#": [values]}
  unit    -> "Name"            (python str subclass Ident)
  string  -> python str
  int     -> python int
  range   -> ("range", a, b)
  list    -> python list
"""
import re


class Ident(str):
    pass


_TOK = re.compile(r'\s*(?:(?P<str>"(?:[^"\\]|\\.)*")|(?P<num>-?\d+)|(?P<id>[A-Za-z_][A-Za-z0-9_]*)|(?P<dots>\.\.)|(?P<p>[{}()\[\],:]))')


def _unescape(s):
    out = []
    i = 1
    n = len(s) - 1
    while i < n:
        c = s[i]
        if c == "\\":
            i += 1
            c = s[i]
            if c == "n":
                out.append("\n")
            elif c == "t":
                out.append("\t")
            elif c == "r":
                out.append("\r")
            elif c == "0":
                out.append("\0")
            elif c == "u":
                j = s.index("}", i)
                out.append(chr(int(s[i + 2:j], 16)))
                i = j
            else:
                out.append(c)
        else:
            out.append(c)
        i += 1
    return "".join(out)


def tokenize(text):
    pos = 0
    toks = []
    n = len(text)
    while pos < n:
        m = _TOK.match(text, pos)
        if not m:
            if text[pos:].strip() == "":
                break
            raise ValueError("rustdebug: cannot tokenize at %r" % text[pos:pos + 40])
        pos = m.end()
        if m.group("str") is not None:
            toks.append(("str", _unescape(m.group("str"))))
        elif m.group("num") is not None:
            toks.append(("num", int(m.group("num"))))
        elif m.group("id") is not None:
            toks.append(("id", m.group("id")))
        elif m.group("dots") is not None:
            toks.append(("dots", ".."))
        else:
            toks.append(("p", m.group("p")))
    return toks


class _P:
    def __init__(self, toks):
        self.t = toks
        self.i = 0

    def peek(self):
        return self.t[self.i] if self.i < len(self.t) else ("eof", None)

    def next(self):
        t = self.peek()
        self.i += 1
        return t

    def expect(self, kind, val=None):
        t = self.next()
        if t[0] != kind or (val is not None and t[1] != val):
            raise ValueError("rustdebug: expected %s %s, got %s" % (kind, val, t))
        return t

    def value(self):
        k, v = self.next()
        if k == "str":
            return v
        if k == "num":
            if self.peek() == ("dots", ".."):
                self.next()
                k2, v2 = self.next()
                if k2 != "num":
                    raise ValueError("rustdebug: bad range")
                return ("range", v, v2)
            return v
        if k == "id":
            nk, nv = self.peek()
            if (nk, nv) == ("p", "{"):
                self.next()
                d = {"_": v}
                while self.peek() != ("p", "}"):
                    fk, fname = self.next()
                    if fk != "id":
                        raise ValueError("rustdebug: field name expected, got %s" % (fname,))
                    self.expect("p", ":")
                    d[fname] = self.value()
                    if self.peek() == ("p", ","):
                        self.next()
                self.next()
                return d
            if (nk, nv) == ("p", "("):
                self.next()
                vals = []
                while self.peek() != ("p", ")"):
                    vals.append(self.value())
                    if self.peek() == ("p", ","):
                        self.next()
                self.next()
                return {"_": v, "#": vals}
            return Ident(v)
        if (k, v) == ("p", "["):
            vals = []
            while self.peek() != ("p", "]"):
                vals.append(self.value())
                if self.peek() == ("p", ","):
                    self.next()
            self.next()
            return vals
        if (k, v) == ("p", "("):
            vals = []
            while self.peek() != ("p", ")"):
                vals.append(self.value())
                if self.peek() == ("p", ","):
                    self.next()
            self.next()
            return tuple(vals)
        raise ValueError("rustdebug: unexpected token %s %s" % (k, v))


def parse(text):
    p = _P(tokenize(text))
    v = p.value()
    if p.peek()[0] != "eof":
        raise ValueError("rustdebug: trailing tokens")
    return v


# ------------------------------------------------------------------ MIR -> Coq term (coq/theories/Mir.v)

def cs(s):
    return '"' + s.replace('"', '""') + '"%string'


def cz(n):
    return "(%d)%%Z" % n


def copt(v, f):
    if isinstance(v, Ident) and v == "None":
        return "None"
    if isinstance(v, dict) and v.get("_") == "Some":
        return "(Some %s)" % f(v["#"][0])
    raise ValueError("option expected: %r" % (v,))


def clist(vs, f):
    return "[" + "; ".join(f(x) for x in vs) + "]"


def cbool(v):
    return "true" if v == "true" else "false"


def c_cfg(v):
    return copt(v["value"], cs)


def c_access(v):
    return str(v)


def c_byte_order(v):
    return {"LE": "BoLE", "BE": "BoBE"}[str(v)]


def c_bit_order(v):
    return {"LSB0": "BiLSB0", "MSB0": "BiMSB0"}[str(v)]


def c_integer(v):
    return {"U8": "IU8", "U16": "IU16", "U32": "IU32", "I8": "II8", "I16": "II16", "I32": "II32", "I64": "II64"}[str(v)]


def c_repeat(v):
    return "{| r_count := %s; r_stride := %s |}" % (cz(v["count"]), cz(v["stride"]))


def c_reset(v):
    if v["_"] == "Integer":
        return "(RInt %s)" % cz(v["#"][0])
    return "(RArr %s)" % clist(v["#"][0], cz)


def c_enum_value(v):
    if isinstance(v, Ident):
        return {"Unspecified": "EVUnspec", "Default": "EVDefault", "CatchAll": "EVCatchAll"}[str(v)]
    return "(EVSpec %s)" % cz(v["#"][0])


def c_variant(v):
    return "{| v_cfg := %s; v_name := %s; v_value := %s |}" % (c_cfg(v["cfg_attr"]), cs(v["name"]), c_enum_value(v["value"]))


def c_style(v):
    if isinstance(v, Ident):
        return "GFallible"
    return "(GInfallible %s)" % cz(v["bit_size"])


def c_enum(v):
    return "{| e_cfg := %s; e_name := %s; e_variants := %s; e_style := %s |}" % (
        c_cfg(v["cfg_attr"]), cs(v["name"]), clist(v["variants"], c_variant), copt(v["generation_style"], c_style))


def c_conv(v):
    if v["_"] == "Direct":
        return "(ConvDirect %s %s)" % (cs(v["type_name"]), cbool(v["use_try"]))
    return "(ConvEnum %s %s)" % (c_enum(v["enum_value"]), cbool(v["use_try"]))


def c_field(v):
    r = v["field_address"]
    return ("{| f_cfg := %s; f_name := %s; f_access := %s; f_base := %s; f_conv := %s; f_start := %s; f_end := %s |}" % (
        c_cfg(v["cfg_attr"]), cs(v["name"]), c_access(v["access"]),
        {"Bool": "BBool", "Uint": "BUint", "Int": "BInt"}[str(v["base_type"])],
        copt(v["field_conversion"], c_conv), cz(r[1]), cz(r[2])))


def c_register(v):
    return ("{| rg_cfg := %s; rg_name := %s; rg_access := %s; rg_byte_order := %s; rg_bit_order := %s; "
            "rg_allow_bit_overlap := %s; rg_allow_address_overlap := %s; rg_address := %s; rg_size_bits := %s; "
            "rg_reset := %s; rg_repeat := %s; rg_fields := %s |}" % (
                c_cfg(v["cfg_attr"]), cs(v["name"]), c_access(v["access"]), copt(v["byte_order"], c_byte_order),
                c_bit_order(v["bit_order"]), cbool(v["allow_bit_overlap"]), cbool(v["allow_address_overlap"]),
                cz(v["address"]), cz(v["size_bits"]), copt(v["reset_value"], c_reset), copt(v["repeat"], c_repeat),
                clist(v["fields"], c_field)))


def c_command(v):
    return ("{| cm_cfg := %s; cm_name := %s; cm_address := %s; cm_byte_order := %s; cm_bit_order := %s; "
            "cm_allow_bit_overlap := %s; cm_allow_address_overlap := %s; cm_size_in := %s; cm_size_out := %s; "
            "cm_repeat := %s; cm_in_fields := %s; cm_out_fields := %s |}" % (
                c_cfg(v["cfg_attr"]), cs(v["name"]), cz(v["address"]), copt(v["byte_order"], c_byte_order),
                c_bit_order(v["bit_order"]), cbool(v["allow_bit_overlap"]), cbool(v["allow_address_overlap"]),
                cz(v["size_bits_in"]), cz(v["size_bits_out"]), copt(v["repeat"], c_repeat),
                clist(v["in_fields"], c_field), clist(v["out_fields"], c_field)))


def c_buffer(v):
    return "{| bf_cfg := %s; bf_name := %s; bf_access := %s; bf_address := %s |}" % (
        c_cfg(v["cfg_attr"]), cs(v["name"]), c_access(v["access"]), cz(v["address"]))


def c_override(v):
    k = v["_"]
    o = v["#"][0]
    if k == "Block":
        return "(OvBlock %s %s %s)" % (cs(o["name"]), copt(o["address_offset"], cz), copt(o["repeat"], c_repeat))
    if k == "Register":
        return "(OvRegister %s %s %s %s %s %s)" % (cs(o["name"]), copt(o["access"], c_access), copt(o["address"], cz),
                                                   cbool(o["allow_address_overlap"]), copt(o["reset_value"], c_reset),
                                                   copt(o["repeat"], c_repeat))
    return "(OvCommand %s %s %s %s)" % (cs(o["name"]), copt(o["address"], cz), cbool(o["allow_address_overlap"]),
                                        copt(o["repeat"], c_repeat))


def c_object(v):
    k = v["_"]
    o = v["#"][0]
    if k == "Block":
        return "(OBlock %s %s %s %s %s)" % (c_cfg(o["cfg_attr"]), cs(o["name"]), cz(o["address_offset"]),
                                            copt(o["repeat"], c_repeat), clist(o["objects"], c_object))
    if k == "Register":
        return "(ORegister %s)" % c_register(o)
    if k == "Command":
        return "(OCommand %s)" % c_command(o)
    if k == "Buffer":
        return "(OBuffer %s)" % c_buffer(o)
    if k == "Ref":
        return "(ORef %s %s %s)" % (c_cfg(o["cfg_attr"]), cs(o["name"]), c_override(o["object_override"]))
    raise ValueError(k)


def c_config(v):
    return ("{| g_default_register_access := %s; g_default_field_access := %s; g_default_buffer_access := %s; "
            "g_default_byte_order := %s; g_default_bit_order := %s; g_register_address_type := %s; "
            "g_command_address_type := %s; g_buffer_address_type := %s; g_boundaries := %s; g_defmt_feature := %s |}" % (
                c_access(v["default_register_access"]), c_access(v["default_field_access"]),
                c_access(v["default_buffer_access"]), copt(v["default_byte_order"], c_byte_order),
                c_bit_order(v["default_bit_order"]), copt(v["register_address_type"], c_integer),
                copt(v["command_address_type"], c_integer), copt(v["buffer_address_type"], c_integer),
                clist(v["name_word_boundaries"], lambda b: cs(str(b))), copt(v["defmt_feature"], cs)))


def mir_to_coq(mir_debug_text):
    """Rust Debug string of mir::Device -> Coq term of type Mir.device."""
    v = parse(mir_debug_text)
    return "{| d_config := %s; d_objects := %s |}" % (c_config(v["global_config"]), clist(v["objects"], c_object))
