#!/bin/bash
# Runs every claimed check (quick tier) on the current tree, sequentially; prints one line per check.
cd /verif
TIER=${1:-quick}
for p in $(python3 -c "import json;print(' '.join(c['property_id'] for c in json.load(open('MANIFEST.json'))['checks']))"); do
  s=$(date +%s)
  out=$(timeout 3000 ./check $p --tier $TIER 2>&1)
  rc=$?
  echo "$p rc=$rc $(( $(date +%s) - s ))s $(echo "$out" | grep -cE '^VIOLATION') violation(s) $(echo "$out" | grep -cE '^KNOWN-FINDING') known"
done
