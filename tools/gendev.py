"""General random generator of (mostly accepted) device definitions covering the documented language.
Used by C04 (addresses), C16 (four syntaxes), C19 (type-checks).  Profiles switch features on/off so a check
can steer clear of known non-compiling classes (D7 WO fields, D8 negative stride, D9 block refs).

All names are fixed points of the name normalisation (letters only)."""
import random
import adef

OBJ_NAMES = ["Ra", "Rb", "Rc", "Rd", "Re", "Rf", "Rg", "Rh", "Ri", "Rj", "Rk", "Rl", "Rm", "Rn", "Ro", "Rp"]
FIELD_NAMES = ["alpha", "beta", "gamma", "delta", "eps", "zeta"]


class Profile:
    def __init__(self, **kw):
        self.wo_fields = False        # D7
        self.neg_stride = False       # D8 (on readable registers with unsigned address types)
        self.neg_stride_safe = True   # negative strides where they compile (signed types / WO registers / commands)
        self.block_refs = False       # D9
        self.refs = True
        self.ref_families = True      # several refs to one target with complementary override sets (seed C04-5)
        self.overlap_twins = True     # two readable views of one address, both ALLOW_ADDRESS_OVERLAP (seed C04-6)
        self.repeats = True
        self.blocks = True
        self.max_depth = 2
        self.enums = True
        self.enum_same_name = False   # enum named like its own field set
        self.enum_reuse = False       # `as <name of an enum generated elsewhere>` on a later field (documented reuse)
        self.generic_convs = False    # conversion types with generic arguments (`Wrapped<u8>`): for checks that do not compile
        self.case_twins = False       # pairs of names that differ only in letter case (`Rcq` declared before `RcQ`)
        self.conversions = True
        self.reset_values = True
        self.cfgs = False
        self.docs = False
        self.address_types = ["u8", "u16", "u32", "i8", "i16", "i32", "i64"]
        self.max_objects = 6
        self.wide = True              # sizes up to 128
        self.manifest_expressible = False   # avoid things only the DSL can say (u128 reset ints)
        self.buffers = True
        self.commands = True
        self.global_defaults = True
        self.__dict__.update(kw)


class Gen:
    def __init__(self, rng, prof):
        self.rng = rng
        self.p = prof
        self.names = list(OBJ_NAMES)
        rng.shuffle(self.names)
        self.next_addr = {"register": 0, "command": 0, "buffer": 0}
        self.registers = []   # (name, adef) declared so far (ref targets)
        self.commands = []
        self.blocks = []
        self.enum_count = 0
        self.enum_pool = []   # generated enums so far: (name, base, declared width, kind)
        self.twin_queue = []
        self.scope = 0        # id of the block body being generated (0 = root); refs without address override need it
        self.scopes = 0
        self.scope_of = {}    # object name -> scope it was declared in
        self.block_span = {}  # block name -> span of ONE instance of its contents (relative addresses 0..span)

    def name(self):
        # case twins: two legal, distinct names (methods rcq() / rc_q()) that differ only in the case of one letter; the
        # lower-case one is issued first, so that a ref to the later `RcQ` must not end up at `Rcq` (seed C04-8 looked
        # ref targets up ignoring case)
        if self.twin_queue and self.rng.random() < 0.5:
            return self.twin_queue.pop(0)
        n = self.names.pop() if self.names else None
        if n and self.p.case_twins and self.rng.random() < 0.12:
            self.twin_queue.append(n + "Q")
            return n + "q"
        return n

    def addr(self, kind, span=1):
        a = self.next_addr[kind]
        self.next_addr[kind] = a + span + self.rng.choice([0, 0, 1, 3])
        return a

    def fields(self, size, owner, tag):
        rng, p = self.rng, self.p
        if size == 0:
            return []
        n = rng.choice([0, 1, 2, 2, 3])
        cuts = sorted(rng.sample(range(1, size), min(n, size - 1))) if size > 1 and n > 0 else []
        bounds = [0] + cuts + [size]
        out = []
        for i in range(len(bounds) - 1):
            if i >= len(FIELD_NAMES) or rng.random() < 0.15:
                continue
            s, e = bounds[i], bounds[i + 1]
            if e - s > 128:
                e = s + 128
            base = rng.choice(["uint", "uint", "int"])
            conv = None
            end = e
            if e - s == 1 and rng.random() < 0.6:
                base = "bool"
                if rng.random() < 0.5:
                    end = None
            elif p.conversions and rng.random() < 0.4:
                k = rng.random()
                w = e - s
                carrier = lambda bits: max(8, 1 << (bits - 1).bit_length())
                # reuse of a generated enum by name.  Only the combinations the book promises to compile: the integer type
                # of the field must be the enum's, and without `try` the enum must be infallible for this field: it has a
                # default/catch-all (From impl) or it covers every pattern of its own, at least as wide, field
                reusable = [(n, b, ew, kd) for (n, b, ew, kd) in self.enum_pool
                            if b == base and carrier(ew) == carrier(w) and n != owner
                            and (kd in ("default", "catch_all", "both") or (kd == "cover" and w <= ew) or kd == "try")]
                if p.enum_reuse and reusable and rng.random() < 0.3:
                    n, b, ew, kd = rng.choice(reusable)
                    conv = adef.mk_direct(n, kd == "try" or rng.random() < 0.2)
                elif k < 0.35:
                    names = ["crate::convtypes::Ty", "Ty", "super::convtypes::Ty"]
                    if p.generic_convs:
                        # the type path is used as written, generic arguments included (seed C16-9: the DSL kept the segment
                        # identifiers only)
                        names += ["Wrapped<u8>", "crate::types::Checked<Level>", "::ext::Pair<u8,Option<Level>>"]
                    conv = adef.mk_direct(rng.choice(names))
                elif k < 0.5:
                    conv = adef.mk_direct("crate::convtypes::TryTy", True)
                elif p.enums and w <= 16:
                    self.enum_count += 1
                    ename = "En" + FIELD_NAMES[i].capitalize() + owner + tag.capitalize()
                    if p.enum_same_name and not any(f["conv"] and f["conv"]["type"] == "enum" for f in out) and rng.random() < 0.2:
                        # an enum named like the field set it sits in (legal: field sets live in `mod field_sets`)
                        ename = owner + {"": "", "in": "FieldsIn", "out": "FieldsOut"}[tag]
                    kind = rng.random()
                    if kind < 0.1 and w >= 2:
                        # a fallback variant that is NOT written last: it still takes the implicit number previous+1 and
                        # the explicit numbers after it may or may not run into that one (seed C19-8 took fallback
                        # variants out of the duplicate test; a collision is a rejected definition, not an E0081)
                        first = rng.choice([0, 1])
                        vs = [adef.mk_variant("Vz", rng.choice(["default", "catch_all"])), adef.mk_variant("Va", first),
                              adef.mk_variant("Vb", first + 1)]
                        if rng.random() < 0.5:
                            vs = [adef.mk_variant("Vy", 0)] + vs[:1] + [adef.mk_variant("Va", first + 1), adef.mk_variant("Vb", first + 2)]
                        tr, ek = False, "default"
                    elif kind < 0.3:
                        vs = [adef.mk_variant("Va"), adef.mk_variant("Vb", "default")]
                        tr, ek = False, "default"
                    elif kind < 0.55:
                        vs = [adef.mk_variant("Va", 1 if w > 1 else 0), adef.mk_variant("Vb", "catch_all")]
                        tr, ek = False, "catch_all"
                    elif kind < 0.8:
                        vs = [adef.mk_variant("Va"), adef.mk_variant("Vb", (1 << w) - 1)]
                        tr, ek = True, "try"
                    elif w <= 3:
                        vs = [adef.mk_variant("V" + "abcdefgh"[k2]) for k2 in range(1 << w)]
                        tr, ek = False, "cover"
                    else:
                        vs = [adef.mk_variant("Va", 0), adef.mk_variant("Vb", "default"), adef.mk_variant("Vc", "catch_all")]
                        tr, ek = False, "both"
                    self.enum_pool.append((ename, base, w, ek))
                    conv = adef.mk_enum(ename, vs, tr)
            accs = [None, None, "RW", "RO"] + (["WO"] if p.wo_fields else [])
            out.append(adef.mk_field(FIELD_NAMES[i], base, s, end, access=rng.choice(accs), conv=conv,
                                     doc=("field " + FIELD_NAMES[i]) if p.docs and rng.random() < 0.3 else None))
        return out

    def repeat(self, unsigned_readable=False):
        rng, p = self.rng, self.p
        if not p.repeats or rng.random() < 0.6:
            return None, 1
        count = rng.choice([0, 1, 2, 2, 3, 3, 4, 4])   # 0: legal, no instance, every index panics
        strides = [1, 2, 4, 8, 16]
        if p.neg_stride or (p.neg_stride_safe and not unsigned_readable):
            strides += [-1, -2, -4]
        stride = rng.choice(strides)
        return {"count": count, "stride": stride}, abs(stride) * max(count - 1, 0) + 1

    def byte_order(self, cfg, size):
        bo = self.rng.choice([None, "LE", "BE"])
        if bo is None and cfg["default_byte_order"] is None and size > 8:
            bo = self.rng.choice(["LE", "BE"])
        return bo

    def register(self, cfg, reg_unsigned):
        rng, p = self.rng, self.p
        name = self.name()
        size = rng.choice([1, 4, 8, 8, 12, 16, 16, 24, 32] + ([40, 64, 128] if p.wide else []))
        acc = rng.choice([None, None, "RW", "RO", "WO"])
        eff = acc or cfg.get("default_register_access") or "RW"
        rep, span = self.repeat(unsigned_readable=(reg_unsigned and eff != "WO"))
        a = self.addr("register", span)
        if rep and rep["stride"] < 0:
            a += span
            self.next_addr["register"] += span
        reset = None
        if p.reset_values and rng.random() < 0.35:
            nb = (size + 7) // 8
            if rng.random() < 0.5:
                lim = min(size, 64 if p.manifest_expressible else 128)
                reset = rng.getrandbits(lim) if rng.random() < 0.7 else 0
            else:
                bo = None  # array form needs the top bits clear in the register's own order: use zeros mostly
                reset = [0] * nb
        r = adef.mk_register(name, a, size, self.fields(size, name, ""), access=acc,
                             byte_order=self.byte_order(cfg, size), bit_order=rng.choice([None, None, "LSB0", "MSB0"]),
                             reset_value=reset, repeat=rep,
                             doc=("register " + name) if p.docs and rng.random() < 0.3 else None)
        self.registers.append(r)
        self.scope_of[name] = self.scope
        return r

    def command(self, cfg):
        rng = self.rng
        name = self.name()
        rep, span = self.repeat()
        a = self.addr("command", span)
        if rep and rep["stride"] < 0:
            a += span
            self.next_addr["command"] += span
        shape = rng.choice(["basic", "none", "in", "out", "inout"])
        if shape == "basic":
            c = adef.mk_command(name, a, basic=True)
            c["repeat"] = None
        else:
            si = rng.choice([8, 16, 24]) if shape in ("in", "inout") else None
            so = rng.choice([4, 8, 32]) if shape in ("out", "inout") else None
            c = adef.mk_command(name, a, size_bits_in=si, size_bits_out=so,
                                fields_in=self.fields(si, name, "in") if si and rng.random() < 0.85 else None,   # a declared size without fields is legal
                                fields_out=self.fields(so, name, "out") if so and rng.random() < 0.85 else None,
                                byte_order=self.byte_order(cfg, max(si or 0, so or 0)),
                                bit_order=rng.choice([None, None, "MSB0"]), repeat=rep)
            if rng.random() < 0.04:
                # fields in a direction whose size is left out: the range check rejects them (nothing fits in 0 bits); were
                # they accepted, the accessor would name a field set that is never emitted (seed C19-9)
                k = rng.choice(["size_bits_in", "size_bits_out"])
                if c.get(k) and c.get(k.replace("size_bits", "fields")):
                    c[k] = None
        self.commands.append(c)
        self.scope_of[name] = self.scope
        return c

    def buffer(self, cfg):
        name = self.name()
        return adef.mk_buffer(name, self.addr("buffer"), access=self.rng.choice([None, "RW", "RO", "WO"]))

    def ref(self, cfg, reg_unsigned, target=None, mode=None):
        """mode None: random overrides (an address always).  Modes used for FAMILIES of refs to one target (each ref must
        start from the pristine target, whatever its siblings override): "full" = address + repeat (+ access, overlap flag,
        reset value), "addr_only" = address alone (repeat / access / reset value are the target's), "bare" = no override
        but ALLOW_ADDRESS_OVERLAP (address, repeat, access are the target's; the target allows the overlap too)."""
        rng, p = self.rng, self.p
        kinds = []
        if self.registers:
            kinds.append("register")
        if self.commands:
            kinds.append("command")
        if p.block_refs and self.blocks:
            kinds.append("block")
        if not kinds:
            return None
        if target:
            k, t = target
        else:
            k = rng.choice(kinds)
            t = rng.choice({"register": self.registers, "command": self.commands, "block": self.blocks}[k])
        if k == "command" and t.get("basic") and mode == "bare":
            mode = "addr_only"
        if mode == "bare":
            tr = t.get("repeat")
            same_scope = self.scope_of.get(t["name"]) == self.scope
            fresh = t["address"] >= self.next_addr[k] and not (tr and tr["stride"] < 0)
            if tr and tr["stride"] < 0 and not same_scope:
                mode = "addr_only"
            elif same_scope:
                t["allow_address_overlap"] = True
            elif fresh:
                self.next_addr[k] = t["address"] + (tr["count"] * abs(tr["stride"]) if tr else 0) + 1
                if rng.random() < 0.5:
                    t["allow_address_overlap"] = True
            else:
                mode = "addr_only"
        name = self.name()
        if mode == "bare":
            ov = {"kind": k}
            if t.get("allow_address_overlap"):
                ov["allow_address_overlap"] = True
            return adef.mk_ref(name, t["name"], ov)
        if k == "register":
            rep, span = self.repeat(unsigned_readable=reg_unsigned)
            if mode == "addr_only":
                rep, span = None, 1
            elif mode == "full" and p.repeats:
                for _ in range(20):
                    if rep and rep != t.get("repeat"):
                        break
                    rep, span = self.repeat(unsigned_readable=reg_unsigned)
            ov = {"kind": "register", "address": self.addr("register", span + (t["repeat"]["count"] * abs(t["repeat"]["stride"]) if t["repeat"] and not rep else 0))}
            if rep:
                if rep["stride"] < 0:
                    ov["address"] += span
                    self.next_addr["register"] += span
                ov["repeat"] = rep
            elif t["repeat"] and t["repeat"]["stride"] < 0:
                ov["address"] += t["repeat"]["count"] * abs(t["repeat"]["stride"])
                self.next_addr["register"] += t["repeat"]["count"] * abs(t["repeat"]["stride"])
            if mode != "addr_only" and (rng.random() < 0.3 or mode == "full"):
                teff = t.get("access") or cfg.get("default_register_access") or "RW"
                ov["access"] = rng.choice([a for a in ["RW", "RO", "WO"] if a != teff or mode != "full"])
                if reg_unsigned and ov["access"] != "WO" and not p.neg_stride:
                    rr = ov.get("repeat") or t["repeat"]
                    if rr and rr["stride"] < 0:
                        ov["access"] = "WO"
            if mode != "addr_only" and p.reset_values and rng.random() < (0.6 if mode == "full" else 0.3):
                nb = (t["size_bits"] + 7) // 8
                ov["reset_value"] = [0] * nb if rng.random() < 0.5 else (1 if t["size_bits"] >= 1 else 0)
            if mode == "full" and rng.random() < 0.5:
                ov["allow_address_overlap"] = True
            return adef.mk_ref(name, t["name"], ov)
        if k == "command":
            rep, span = self.repeat()
            if mode == "addr_only":
                rep, span = None, 1
            elif mode == "full" and p.repeats:
                for _ in range(20):
                    if rep and rep != t.get("repeat"):
                        break
                    rep, span = self.repeat()
            span2 = span + (t["repeat"]["count"] * abs(t["repeat"]["stride"]) if t.get("repeat") and not rep else 0)
            ov = {"kind": "command", "address": self.addr("command", span2) + (span2 if ((rep or t.get("repeat") or {}).get("stride", 1) < 0) else 0)}
            if ((rep or t.get("repeat") or {}).get("stride", 1) < 0):
                self.next_addr["command"] += span2
            if rep:
                ov["repeat"] = rep
            if mode == "full" and rng.random() < 0.5:
                ov["allow_address_overlap"] = True
            return adef.mk_ref(name, t["name"], ov)
        # a block ref instantiates the target's objects again at the ref's own offset (and repeat): place it after
        # everything declared so far in this scope, and reserve the target's span
        used = self.block_span.get(t["name"], 50)
        base = max(self.next_addr.values()) + rng.choice([0, 1, 10])
        ov = {"kind": "block", "address_offset": base}
        span = used
        if p.repeats and rng.random() < 0.35:
            count = rng.choice([0, 1, 2, 3])
            ov["repeat"] = {"count": count, "stride": used + rng.choice([0, 1, 4])}
            span = ov["repeat"]["stride"] * max(count, 1)
        elif t.get("repeat"):
            span = t["repeat"]["stride"] * max(t["repeat"]["count"], 1)
            if rng.random() < 0.3:
                del ov["address_offset"]          # keeps the target's offset: only legal where that does not collide
                ov["repeat"] = {"count": 1, "stride": used}
                ov["address_offset"] = base
        self.next_addr = {k2: base + span + 1 for k2 in self.next_addr}
        return adef.mk_ref(name, t["name"], ov)

    def ref_family(self, cfg, reg_unsigned):
        """Two or three refs to ONE register / command with complementary override sets, in random order."""
        rng = self.rng
        kinds = [k for k, l in (("register", self.registers), ("command", self.commands)) if l]
        if not kinds:
            return []
        k = rng.choice(kinds)
        t = rng.choice(self.registers if k == "register" else self.commands)
        modes = rng.choice([["full", "addr_only"], ["full", "bare"], ["full", "addr_only", "bare"], ["full", "full", "addr_only"]])
        rng.shuffle(modes)
        out = []
        for m in modes:
            if len(self.names) < 2:
                break
            o = self.ref(cfg, reg_unsigned, target=(k, t), mode=m)
            if o:
                out.append(o)
        return out

    def objects(self, cfg, depth, reg_unsigned, n):
        rng, p = self.rng, self.p
        out = []
        for _ in range(n):
            if len(self.names) < 2:
                break
            if p.block_refs and self.blocks and rng.random() < 0.15:
                out.append(self.ref(cfg, reg_unsigned, target=("block", rng.choice(self.blocks))))
                continue
            r = rng.random()
            if r < 0.45:
                out.append(self.register(cfg, reg_unsigned))
                if p.overlap_twins and rng.random() < 0.15 and len(self.names) >= 2:
                    # a second VIEW of the same address (legal when both allow the overlap), e.g. an RO status view and an
                    # RW control view, or a repeat with stride 0: every one of them is an accessor of its own and an item
                    # of its own in read_all_registers (seed C04-6 read each address once)
                    first = out[-1]
                    first["allow_address_overlap"] = True
                    twin = self.register(cfg, reg_unsigned)
                    self.next_addr["register"] -= 0      # (the twin's own allocation stays reserved: harmless)
                    twin["address"] = first["address"]
                    twin["allow_address_overlap"] = True
                    if rng.random() < 0.4:
                        twin["repeat"] = {"count": rng.choice([2, 3]), "stride": 0}
                    elif twin.get("repeat") and first.get("repeat"):
                        twin["repeat"] = dict(first["repeat"])
                    else:
                        twin["repeat"] = None
                    if first.get("repeat") and twin["repeat"] is None and first["repeat"]["stride"] < 0:
                        pass
                    out.append(twin)
            elif r < 0.6 and p.commands:
                out.append(self.command(cfg))
            elif r < 0.7 and p.buffers:
                out.append(self.buffer(cfg))
            elif r < 0.82 and p.refs:
                if p.ref_families and rng.random() < 0.4:
                    out.extend(self.ref_family(cfg, reg_unsigned))
                    continue
                o = self.ref(cfg, reg_unsigned)
                if o:
                    out.append(o)
            elif p.blocks and depth < p.max_depth:
                name = self.name()
                # a block shifts every kind's address space: keep children relative and small
                saved = dict(self.next_addr)
                self.next_addr = {"register": 0, "command": 0, "buffer": 0}
                outer_scope = self.scope
                self.scopes += 1
                self.scope = self.scopes
                inner = self.objects(cfg, depth + 1, reg_unsigned, rng.choice([1, 2, 3]))
                self.scope = outer_scope
                used = max(self.next_addr.values()) + 1
                rep = None
                span = used
                if p.repeats and rng.random() < 0.4:
                    count = rng.choice([2, 3])
                    rep = {"count": count, "stride": used + rng.choice([0, 1, 4])}
                    span = rep["stride"] * count
                base = max(saved.values()) + rng.choice([0, 1, 10])
                self.next_addr = {k: base + span + 1 for k in saved}
                b = adef.mk_block(name, inner, address_offset=base if (base or rng.random() < 0.5) else None, repeat=rep)
                self.block_span[name] = used
                self.blocks.append(b)
                out.append(b)
        return out


def gen_device(rng, prof=None):
    p = prof or Profile()
    g = Gen(rng, p)
    rt = rng.choice(p.address_types)
    cfg = adef.mk_config(register_address_type=rt, command_address_type=rng.choice(p.address_types),
                         buffer_address_type=rng.choice(p.address_types))
    cfg["default_byte_order"] = rng.choice([None, "LE", "BE"])
    if p.global_defaults:
        cfg["default_bit_order"] = rng.choice([None, None, "LSB0", "MSB0"])
        cfg["default_register_access"] = rng.choice([None, None, "RW", "RO"])
        cfg["default_field_access"] = rng.choice([None, None, "RW", "RO"] + (["WO"] if p.wo_fields else []))
        cfg["default_buffer_access"] = rng.choice([None, None, "RW", "RO", "WO"])
    if rng.random() < 0.15:
        cfg["defmt_feature"] = "defmt"
    objs = g.objects(cfg, 0, rt.startswith("u"), rng.randrange(1, p.max_objects + 1))
    return {"config": cfg, "objects": objs}
