"""Abstract definitions (adef): one python/JSON description of a device definition, renderers to the four
input syntaxes (DSL, JSON, YAML, TOML), and building blocks for the per-property random generators.

adef = {"config": {key: value|None ...}, "objects": [object ...]}
object kinds: block / register / command / buffer / ref   (see the mk_* constructors below)
All optional properties are None when absent; renderers omit them.
Spelling variation (RW vs ReadWrite, hex/binary/underscored integers, a..b vs a..=b) is chosen by the
renderer from an optional random.Random so that one adef has many renderings.
"""
import json, random

CONFIG_KEYS = ["default_register_access", "default_field_access", "default_buffer_access", "default_byte_order",
               "default_bit_order", "register_address_type", "command_address_type", "buffer_address_type",
               "name_word_boundaries", "defmt_feature"]
DSL_CONFIG_NAMES = {"default_register_access": "DefaultRegisterAccess", "default_field_access": "DefaultFieldAccess",
                    "default_buffer_access": "DefaultBufferAccess", "default_byte_order": "DefaultByteOrder",
                    "default_bit_order": "DefaultBitOrder", "register_address_type": "RegisterAddressType",
                    "command_address_type": "CommandAddressType", "buffer_address_type": "BufferAddressType",
                    "name_word_boundaries": "NameWordBoundaries", "defmt_feature": "DefmtFeature"}
ACCESS_LONG = {"RW": "ReadWrite", "RO": "ReadOnly", "WO": "WriteOnly"}
INTEGER_TYPES = ["u8", "u16", "u32", "i8", "i16", "i32", "i64"]
INT_RANGE = {"u8": (0, 255), "u16": (0, 65535), "u32": (0, 2 ** 32 - 1), "i8": (-128, 127), "i16": (-32768, 32767),
             "i32": (-2 ** 31, 2 ** 31 - 1), "i64": (-2 ** 63, 2 ** 63 - 1)}
BOUNDARIES = ["Hyphen", "Underscore", "Space", "UpperLower", "LowerUpper", "DigitUpper", "UpperDigit", "DigitLower",
              "LowerDigit", "Acronym"]


def mk_config(**kw):
    c = {k: None for k in CONFIG_KEYS}
    c.update(kw)
    return c


def mk_block(name, objects, address_offset=None, repeat=None, cfg=None, doc=None):
    return {"kind": "block", "name": name, "cfg": cfg, "doc": doc, "address_offset": address_offset, "repeat": repeat,
            "objects": objects}


def mk_register(name, address, size_bits, fields, access=None, byte_order=None, bit_order=None, reset_value=None,
                repeat=None, allow_bit_overlap=None, allow_address_overlap=None, cfg=None, doc=None):
    return {"kind": "register", "name": name, "cfg": cfg, "doc": doc, "access": access, "byte_order": byte_order,
            "bit_order": bit_order, "address": address, "size_bits": size_bits, "reset_value": reset_value,
            "repeat": repeat, "allow_bit_overlap": allow_bit_overlap, "allow_address_overlap": allow_address_overlap,
            "fields": fields}


def mk_command(name, address, size_bits_in=None, size_bits_out=None, fields_in=None, fields_out=None, byte_order=None,
               bit_order=None, repeat=None, allow_bit_overlap=None, allow_address_overlap=None, cfg=None, doc=None,
               basic=False):
    return {"kind": "command", "name": name, "cfg": cfg, "doc": doc, "byte_order": byte_order, "bit_order": bit_order,
            "address": address, "size_bits_in": size_bits_in, "size_bits_out": size_bits_out, "repeat": repeat,
            "allow_bit_overlap": allow_bit_overlap, "allow_address_overlap": allow_address_overlap,
            "fields_in": fields_in, "fields_out": fields_out, "basic": basic}


def mk_buffer(name, address, access=None, cfg=None, doc=None):
    return {"kind": "buffer", "name": name, "cfg": cfg, "doc": doc, "access": access, "address": address}


def mk_ref(name, target, override, cfg=None, doc=None):
    """override: {"kind": "register", "access":..,"address":..,"reset_value":..,"repeat":..,"allow_address_overlap":..}
               | {"kind": "command", "address":.., "repeat":.., "allow_address_overlap":..}
               | {"kind": "block", "address_offset":.., "repeat":..}"""
    return {"kind": "ref", "name": name, "cfg": cfg, "doc": doc, "target": target, "override": override}


def mk_field(name, base, start, end=None, access=None, conv=None, cfg=None, doc=None, form=None):
    """end is EXCLUSIVE; end None = single-integer form (bool). form: 'excl' | 'incl' | 'single' | None (renderer picks)."""
    return {"name": name, "cfg": cfg, "doc": doc, "access": access, "base": base, "conv": conv, "start": start,
            "end": end, "form": form}


def mk_enum(name, variants, use_try=False):
    """variants: [{"name":..,"value": None|int|"default"|"catch_all","cfg":None,"doc":None}]"""
    return {"type": "enum", "name": name, "try": use_try, "variants": variants}


def mk_direct(type_name, use_try=False):
    return {"type": "direct", "name": type_name, "try": use_try}


def mk_variant(name, value=None, cfg=None, doc=None):
    return {"name": name, "value": value, "cfg": cfg, "doc": doc}


# ------------------------------------------------------------------ spelling helpers

class Spell:
    """Chooses among equivalent spellings. rng None = canonical spelling."""

    def __init__(self, rng=None):
        self.rng = rng

    def access(self, a):
        if self.rng and self.rng.random() < 0.4:
            return ACCESS_LONG[a]
        return a

    def dsl_int(self, n):
        if self.rng is None or n < 0:
            return str(n)
        r = self.rng.random()
        if r < 0.2:
            return hex(n)
        if r < 0.3:
            return bin(n)
        if r < 0.4 and n >= 1000:
            s = str(n)
            return s[:-3] + "_" + s[-3:]
        if r < 0.45:
            return "0o%o" % n
        return str(n)


# ------------------------------------------------------------------ DSL renderer

def _dsl_attrs(o, ind):
    s = ""
    if o.get("doc") is not None:
        for line in o["doc"].split("\n"):
            s += f"{ind}#[doc = {json.dumps(line)}]\n"
    if o.get("cfg") is not None:
        s += f"{ind}#[cfg({o['cfg']})]\n"
    return s


def _dsl_repeat(r, sp):
    return "const REPEAT = { count: %s, stride: %s };" % (sp.dsl_int(r["count"]), sp.dsl_int(r["stride"]))


def _dsl_reset(v, sp):
    if isinstance(v, list):
        return "[" + ", ".join(sp.dsl_int(b) for b in v) + "]"
    return sp.dsl_int(v)


def _dsl_field(f, sp, ind):
    s = _dsl_attrs(f, ind)
    s += f"{ind}{f['name']}: "
    if f["access"] is not None:
        s += sp.access(f["access"]) + " "
    s += f["base"]
    c = f["conv"]
    if c is not None:
        s += " as " + ("try " if c["try"] else "")
        if c["type"] == "direct":
            s += c["name"]
        else:
            s += "enum " + c["name"] + " {\n"
            for v in c["variants"]:
                s += _dsl_attrs(v, ind + "    ")
                s += f"{ind}    {v['name']}"
                if v["value"] is not None:
                    s += " = " + (v["value"] if isinstance(v["value"], str) else sp.dsl_int(v["value"]))
                s += ",\n"
            s += ind + "}"
    form = f.get("form")
    if f["end"] is None:
        s += f" = {sp.dsl_int(f['start'])}"
    else:
        if form is None:
            form = "incl" if (sp.rng and sp.rng.random() < 0.3 and f["end"] > f["start"]) else "excl"
        if form == "incl" and f["end"] >= 1:
            s += f" = {sp.dsl_int(f['start'])}..={sp.dsl_int(f['end'] - 1)}"
        else:
            s += f" = {sp.dsl_int(f['start'])}..{sp.dsl_int(f['end'])}"
    return s


def _dsl_fields(fields, sp, ind):
    return ",\n".join(_dsl_field(f, sp, ind) for f in fields) + ("\n" if fields else "")


def _dsl_object(o, sp, ind):
    k = o["kind"]
    s = _dsl_attrs(o, ind)
    i2 = ind + "    "
    if k == "block":
        s += f"{ind}block {o['name']} {{\n"
        if o["address_offset"] is not None:
            s += f"{i2}const ADDRESS_OFFSET = {sp.dsl_int(o['address_offset'])};\n"
        if o["repeat"] is not None:
            s += f"{i2}{_dsl_repeat(o['repeat'], sp)}\n"
        s += ",\n".join(_dsl_object(c, sp, i2) for c in o["objects"])
        s += f"\n{ind}}}"
    elif k == "register":
        s += f"{ind}register {o['name']} {{\n"
        if o["access"] is not None:
            s += f"{i2}type Access = {sp.access(o['access'])};\n"
        if o["byte_order"] is not None:
            s += f"{i2}type ByteOrder = {o['byte_order']};\n"
        if o["bit_order"] is not None:
            s += f"{i2}type BitOrder = {o['bit_order']};\n"
        if o.get("address") is not None:
            s += f"{i2}const ADDRESS = {sp.dsl_int(o['address'])};\n"
        if o.get("size_bits") is not None:
            s += f"{i2}const SIZE_BITS = {sp.dsl_int(o['size_bits'])};\n"
        if o.get("reset_value") is not None:
            s += f"{i2}const RESET_VALUE = {_dsl_reset(o['reset_value'], sp)};\n"
        if o["repeat"] is not None:
            s += f"{i2}{_dsl_repeat(o['repeat'], sp)}\n"
        if o.get("allow_bit_overlap") is not None:
            s += f"{i2}const ALLOW_BIT_OVERLAP = {str(o['allow_bit_overlap']).lower()};\n"
        if o.get("allow_address_overlap") is not None:
            s += f"{i2}const ALLOW_ADDRESS_OVERLAP = {str(o['allow_address_overlap']).lower()};\n"
        s += _dsl_fields(o.get("fields") or [], sp, i2)
        s += f"{ind}}}"
    elif k == "command":
        if o.get("basic"):
            s += f"{ind}command {o['name']} = {sp.dsl_int(o['address'])}"
        else:
            s += f"{ind}command {o['name']} {{\n"
            if o["byte_order"] is not None:
                s += f"{i2}type ByteOrder = {o['byte_order']};\n"
            if o["bit_order"] is not None:
                s += f"{i2}type BitOrder = {o['bit_order']};\n"
            if o.get("address") is not None:
                s += f"{i2}const ADDRESS = {sp.dsl_int(o['address'])};\n"
            if o.get("size_bits_in") is not None:
                s += f"{i2}const SIZE_BITS_IN = {sp.dsl_int(o['size_bits_in'])};\n"
            if o.get("size_bits_out") is not None:
                s += f"{i2}const SIZE_BITS_OUT = {sp.dsl_int(o['size_bits_out'])};\n"
            if o["repeat"] is not None:
                s += f"{i2}{_dsl_repeat(o['repeat'], sp)}\n"
            if o.get("allow_bit_overlap") is not None:
                s += f"{i2}const ALLOW_BIT_OVERLAP = {str(o['allow_bit_overlap']).lower()};\n"
            if o.get("allow_address_overlap") is not None:
                s += f"{i2}const ALLOW_ADDRESS_OVERLAP = {str(o['allow_address_overlap']).lower()};\n"
            if o.get("fields_in") is not None:
                s += f"{i2}in {{\n{_dsl_fields(o['fields_in'], sp, i2 + '    ')}{i2}}},\n"
            if o.get("fields_out") is not None:
                s += f"{i2}out {{\n{_dsl_fields(o['fields_out'], sp, i2 + '    ')}{i2}}},\n"
            s += f"{ind}}}"
    elif k == "buffer":
        s += f"{ind}buffer {o['name']}"
        if o["access"] is not None:
            s += f": {sp.access(o['access'])}"
        if o.get("address") is not None:
            s += f" = {sp.dsl_int(o['address'])}"
    elif k == "ref":
        ov = o["override"]
        s += f"{ind}ref {o['name']} = "
        fake = dict(ov)
        fake["name"] = o["target"]
        fake.setdefault("cfg", None)
        fake.setdefault("doc", None)
        if ov["kind"] == "block":
            fake.setdefault("objects", [])
            fake.setdefault("address_offset", None)
            fake.setdefault("repeat", None)
        elif ov["kind"] == "register":
            for key in ("access", "byte_order", "bit_order", "address", "size_bits", "reset_value", "repeat",
                        "allow_bit_overlap", "allow_address_overlap", "fields"):
                fake.setdefault(key, None)
        elif ov["kind"] == "command":
            for key in ("byte_order", "bit_order", "address", "size_bits_in", "size_bits_out", "repeat",
                        "allow_bit_overlap", "allow_address_overlap", "fields_in", "fields_out", "basic"):
                fake.setdefault(key, None)
        elif ov["kind"] == "buffer":
            fake.setdefault("access", None)
            fake.setdefault("address", None)
        elif ov["kind"] == "ref":
            fake.setdefault("target", "X")
            fake.setdefault("override", {"kind": "register"})
        s += _dsl_object(fake, sp, ind).lstrip()
    return s


def to_dsl(adef, rng=None):
    sp = Spell(rng)
    s = ""
    cfg = adef.get("config")
    if cfg is not None and any(cfg.get(k) is not None for k in CONFIG_KEYS):
        s += "config {\n"
        for k in CONFIG_KEYS:
            v = cfg.get(k)
            if v is None:
                continue
            if k.endswith("_access"):
                v = sp.access(v)
            elif k == "name_word_boundaries":
                v = json.dumps(v) if isinstance(v, str) else "[" + ", ".join(v) + "]"
            elif k == "defmt_feature":
                v = json.dumps(v)
            s += f"    type {DSL_CONFIG_NAMES[k]} = {v};\n"
        s += "}\n"
    s += ",\n".join(_dsl_object(o, sp, "") for o in adef["objects"])
    return s + "\n"


# ------------------------------------------------------------------ manifest tree (shared by JSON / YAML / TOML)

class Null:
    """explicit null in the manifest tree (JSON null / YAML ~); TOML has none and renders {}"""


NULL = Null()


def _m_field(f, sp):
    d = {}
    if f.get("cfg") is not None:
        d["cfg"] = f["cfg"]
    if f.get("doc") is not None:
        d["description"] = f["doc"]
    if f["access"] is not None:
        d["access"] = sp.access(f["access"])
    d["base"] = f["base"]
    c = f["conv"]
    if c is not None:
        key = "try_conversion" if c["try"] else "conversion"
        if c["type"] == "direct":
            d[key] = c["name"]
        else:
            e = {"name": c["name"]}
            if f.get("doc") is not None:
                e["description"] = f["doc"]   # the DSL gives the enum the field's description
            for v in c["variants"]:
                if v.get("cfg") is None and v.get("doc") is None and not (sp.rng and sp.rng.random() < 0.3):
                    e[v["name"]] = NULL if v["value"] is None else v["value"]
                else:
                    vm = {}
                    if v.get("cfg") is not None:
                        vm["cfg"] = v["cfg"]
                    if v.get("doc") is not None:
                        vm["description"] = v["doc"]
                    if v["value"] is not None:
                        vm["value"] = v["value"]
                    e[v["name"]] = vm
            d[key] = e
    d["start"] = f["start"]
    if f["end"] is not None:
        d["end"] = f["end"]
    if sp.rng and sp.rng.random() < 0.3:
        # the order of the keys of a field map is free (`end` before `start`, `base` last, ...): an equivalent spelling
        items = list(d.items())
        sp.rng.shuffle(items)
        d = dict(items)
    return d


def _m_fields(fields, sp):
    return {f["name"]: _m_field(f, sp) for f in fields}


def _m_common(o, d):
    if o.get("cfg") is not None:
        d["cfg"] = o["cfg"]
    if o.get("doc") is not None:
        d["description"] = o["doc"]


def _m_object(o, sp):
    k = o["kind"]
    d = {"type": k}
    _m_common(o, d)
    if k == "block":
        if o.get("address_offset") is not None:
            d["address_offset"] = o["address_offset"]
        if o.get("repeat") is not None:
            d["repeat"] = dict(o["repeat"])
        if o.get("objects"):
            d["objects"] = {c["name"]: _m_object(c, sp) for c in o["objects"]}
    elif k == "register":
        for key in ("access",):
            if o.get(key) is not None:
                d[key] = sp.access(o[key])
        for key in ("byte_order", "bit_order", "address", "size_bits", "reset_value"):
            if o.get(key) is not None:
                d[key] = o[key]
        if o.get("repeat") is not None:
            d["repeat"] = dict(o["repeat"])
        for key in ("allow_bit_overlap", "allow_address_overlap"):
            if o.get(key) is not None:
                d[key] = o[key]
        if o.get("fields"):
            d["fields"] = _m_fields(o["fields"], sp)
    elif k == "command":
        for key in ("byte_order", "bit_order", "address"):
            if o.get(key) is not None:
                d[key] = o[key]
        if o.get("repeat") is not None:
            d["repeat"] = dict(o["repeat"])
        for key in ("allow_bit_overlap", "allow_address_overlap", "size_bits_in"):
            if o.get(key) is not None:
                d[key] = o[key]
        if o.get("fields_in") is not None:
            d["fields_in"] = _m_fields(o["fields_in"], sp)
        if o.get("size_bits_out") is not None:
            d["size_bits_out"] = o["size_bits_out"]
        if o.get("fields_out") is not None:
            d["fields_out"] = _m_fields(o["fields_out"], sp)
    elif k == "buffer":
        if o.get("access") is not None:
            d["access"] = sp.access(o["access"])
        if o.get("address") is not None:
            d["address"] = o["address"]
    elif k == "ref":
        d["target"] = o["target"]
        ov = dict(o["override"])
        kind = ov.pop("kind")
        od = {"type": kind}
        for key, v in ov.items():
            if v is None:
                continue
            if key == "access":
                v = sp.access(v)
            if key == "repeat":
                v = dict(v)
            od[key] = v
        d["override"] = od
    return d


def to_manifest_tree(adef, rng=None):
    sp = Spell(rng)
    t = {}
    cfg = adef.get("config")
    if cfg is not None and any(cfg.get(k) is not None for k in CONFIG_KEYS):
        c = {}
        for k in CONFIG_KEYS:
            v = cfg.get(k)
            if v is None:
                continue
            if k.endswith("_access"):
                v = sp.access(v)
            c[k] = v
        t["config"] = c
    for o in adef["objects"]:
        t[o["name"]] = _m_object(o, sp)
    if rng and "config" in t and len(t) > 1 and rng.random() < 0.3:
        # the position of the `config` entry among the top-level keys is free (all three parsers keep key order): an
        # equivalent spelling; the global defaults apply to the objects written BEFORE it too (seed C06-8)
        items = [(k, v) for k, v in t.items() if k != "config"]
        items.insert(rng.randrange(1, len(items) + 1), ("config", t["config"]))
        t = dict(items)
    return t


def _json_conv(v):
    if isinstance(v, Null):
        return None
    if isinstance(v, dict):
        return {k: _json_conv(x) for k, x in v.items()}
    if isinstance(v, list):
        return [_json_conv(x) for x in v]
    return v


def to_json(adef, rng=None):
    return json.dumps(_json_conv(to_manifest_tree(adef, rng)), indent=1)


def _yaml_scalar(v, rng=None):
    if isinstance(v, Null):
        return "~"
    if isinstance(v, bool):
        return "true" if v else "false"
    if isinstance(v, int):
        if rng and v >= 0 and rng.random() < 0.2:
            return hex(v)
        return str(v)
    return json.dumps(v)  # double-quoted string: valid YAML


def _yaml(v, ind, rng):
    pad = "  " * ind
    if isinstance(v, dict):
        if not v:
            return " {}\n"
        s = "\n"
        for k, x in v.items():
            s += f"{pad}{json.dumps(k)}:" + _yaml_inline_or_block(x, ind + 1, rng)
        return s
    if isinstance(v, list):
        return " [" + ", ".join(_yaml_scalar(x, rng) for x in v) + "]\n"
    return " " + _yaml_scalar(v, rng) + "\n"


def _yaml_inline_or_block(v, ind, rng):
    return _yaml(v, ind, rng)


def to_yaml(adef, rng=None):
    t = to_manifest_tree(adef, rng)
    if not t:
        return "{}\n"
    return _yaml(t, 0, rng).lstrip("\n")


def _toml_val(v, rng=None):
    if isinstance(v, Null):
        return "{}"
    if isinstance(v, bool):
        return "true" if v else "false"
    if isinstance(v, int):
        if rng and v >= 0 and rng.random() < 0.2:
            return hex(v)
        if rng and v >= 0 and rng.random() < 0.1:
            return bin(v)
        return str(v)
    if isinstance(v, str):
        return json.dumps(v)
    if isinstance(v, list):
        return "[" + ", ".join(_toml_val(x, rng) for x in v) + "]"
    if isinstance(v, dict):
        return "{ " + ", ".join(f"{json.dumps(k)} = {_toml_val(x, rng)}" for k, x in v.items()) + " }"
    raise ValueError(v)


def to_toml(adef, rng=None):
    t = to_manifest_tree(adef, rng)
    s = ""
    for name, obj in t.items():
        s += f"[{json.dumps(name)}]\n"
        for k, v in obj.items():
            s += f"{json.dumps(k)} = {_toml_val(v, rng)}\n"
        s += "\n"
    return s


def render(adef, syntax, rng=None):
    return {"dsl": to_dsl, "json": to_json, "yaml": to_yaml, "toml": to_toml}[syntax](adef, rng)


# ------------------------------------------------------------------ generic tree helpers

def walk(objects, depth=0):
    for o in objects:
        yield o, depth
        if o["kind"] == "block":
            yield from walk(o["objects"], depth + 1)


def field_sets(o):
    if o["kind"] == "register":
        return [("", o.get("fields") or [])]
    if o["kind"] == "command":
        return [("in", o.get("fields_in") or []), ("out", o.get("fields_out") or [])]
    return []
