"""Maps the generator's compile_error! messages to (kind, [subject names]) — the same pairs the Coq
models produce (coq/theories/GenErr.v `show_error`: kind:arg1|arg2|...).  One regex per message.
Message wording itself is only compared where a property talks about it."""
import re

Q = r'"([^"]*)"'
RULES = [
    # mir passes, in pipeline order
    ("dup_object", re.compile(r'^Duplicate object name found: ' + Q + r'$'), None),
    ("dup_field", re.compile(r'^Duplicate field name found in object ' + Q + r': ' + Q + r'$'), None),
    ("dup_enum", re.compile(r'^Duplicate generated enum name ' + Q + r' found in object ' + Q + r' on field ' + Q + r'$'), None),
    ("dup_variant", re.compile(r'^Duplicate field ' + Q + r' found in generated enum ' + Q + r' in object ' + Q + r' on field ' + Q + r'$'), None),
    ("enum_too_big", re.compile(r'^Enum ' + Q + r' is too big to fit in 128-bit in object ' + Q + r' on field ' + Q + r'$'), None),
    ("enum_empty", re.compile(r'^Enum ' + Q + r' has no variants which is not allowed\. Add at least one variant$'), None),
    ("enum_dup_value", re.compile(r'^Duplicated assigned value\(s\) for enum ' + Q + r' in object ' + Q + r' on field ' + Q + r': (.*)$', re.S), lambda g: list(g[:3])),
    ("enum_value_too_high", re.compile(r'^The value of variant ' + Q + r' is too high for enum ' + Q + r' in object ' + Q + r' on field ' + Q + r': (-?\d+) \(max = (-?\d+)\)$'), None),
    ("enum_value_too_low", re.compile(r'^The value of variant ' + Q + r' is too low for enum ' + Q + r' in object ' + Q + r' on field ' + Q + r': (-?\d+) \(min = 0\)$'), None),
    ("enum_value_repr", re.compile(r'^The value of variant ' + Q + r' does not fit the i(?:8|16|32|64|128) representation of enum ' + Q + r' in object ' + Q + r' on field ' + Q + r': (-?\d+) \(min = -?\d+, max = \d+\)$'), None),
    ("enum_multi_default", re.compile(r'^More than one default defined on enum ' + Q + r' in object ' + Q + r' on field ' + Q + r'$'), None),
    ("enum_multi_catch_all", re.compile(r'^More than one catch all defined on enum ' + Q + r' in object ' + Q + r' on field ' + Q + r'$'), None),
    ("enum_not_covered", re.compile(r'^Not all bitpatterns are covered on non-try conversion enum ' + Q + r' in object ' + Q + r' on field ' + Q + r'$'), None),
    ("byte_order", re.compile(r'^No byte order is specified for (register|command) ' + Q + r' while it\'s big enough'), None),
    ("reset_too_big", re.compile(r'^The reset value of (register|ref register) ' + Q + r' has \(a\) bit\(s\) specified above the size of the register\..*Keep the bits `(\d+)\.\.` all at zero$', re.S), None),
    ("reset_len", re.compile(r'^The reset value of (register|ref register) ' + Q + r' has the incorrect length\. It must be specified as (\d+) bytes, but now only has (\d+) elements$'), None),
    ("bool_size", re.compile(r'^Object ' + Q + r' has field ' + Q + r' which is of base type `bool` and is larger than 1 bit'), None),
    ("bool_conv", re.compile(r'^Object ' + Q + r' has field ' + Q + r' which is of base type `bool` and has specified a conversion'), None),
    ("field_exceeds", re.compile(r'^Object ' + Q + r' has field ' + Q + r' who\'s address exceeds the given max size bits$'), None),
    ("field_empty", re.compile(r'^Object ' + Q + r' has field ' + Q + r' that is 0 bits\. This is likely a mistake$'), None),
    ("field_overlap", re.compile(r'^Object ' + Q + r' has two overlapping fields: ' + Q + r' and ' + Q + r'\. If this is intended'), None),
    ("ref_unknown", re.compile(r'^(Block|Register|Command) ref ' + Q + r' refers to unknown (?:block|register|command) ' + Q + r'$'), None),
    ("ref_recursive", re.compile(r'^Block ref ' + Q + r' refers to block ' + Q + r' which contains the ref itself$'), None),
    ("no_address_type", re.compile(r'^No (register|command|buffer) address type is specified in the global config'), None),
    ("address_too_low", re.compile(r'^The (register|command|buffer) addresses go as low as (-?\d+), but the selected address type `(\w+)` only goes down to (-?\d+)\.'), None),
    ("address_too_high", re.compile(r'^The (register|command|buffer) addresses go as high as (-?\d+), but the selected address type `(\w+)` only goes up to (-?\d+)\.'), None),
    # lir transform / lir pass
    ("device_name", re.compile(r'^The device name must be given in PascalCase, e\.g\. ' + Q + r'$'), None),
    ("address_overlap", re.compile(r'^Objects ' + Q + r' and ' + Q + r' use the same address \((-?\d+)\)\. If this is intended'), None),
    # DSL front end (syn errors)
    ("dsl_ref_buffer", re.compile(r'^Ref `(\w+)` cannot ref a buffer$'), None),
    ("dsl_ref_ref", re.compile(r'^Ref `(\w+)` cannot ref another ref object$'), None),
    ("dsl_override_forbidden", re.compile(r'^No (?:`(\w+)` is|attributes \(cfg or doc\) are|fields are|objects may be defined|`in` field list is|`out` field list is|basic address specifier is) allowed on (block|register|command) overrides'), None),
    ("dsl_override_forbidden", re.compile(r'^No objects may be defined on (block) overrides$'), None),
    ("dsl_override_value_required", re.compile(r'^A value is required on command overrides$'), None),
    ("dsl_missing", re.compile(r'^(Register|Command|Buffer) `(\w+)` must have (?:an? )?(address|size bits specified|value)'), None),
    ("dsl_nonbool_single", re.compile(r'^Field `(\w+)` has a non-bool base type and must specify the start and the end address$'), None),
    ("dsl_dup_config", re.compile(r'^Duplicate global config found: `(\w+)'), None),
    ("dsl_multi_cfg", re.compile(r'^Only one cfg attribute is allowed, but (\d+) are found$'), None),
    # manifest front end
    ("manifest_ref_buffer", re.compile(r"Cannot make refs to 'buffer's$"), lambda g: []),
    ("manifest_ref_ref", re.compile(r"Cannot make refs to 'ref's$"), lambda g: []),
    ("manifest_unexpected_key", re.compile(r"Unexpected key(?: found)?: '(\w+)'"), None),
    ("manifest_missing", re.compile(r"(Register|Command|Buffer|Ref|Field) definition must contain the '(\w+)' field$"), None),
]


def classify(msg):
    """-> 'kind:arg1|arg2' or 'other:<first 80 chars>'"""
    if msg is None:
        return "other:"
    m0 = msg.strip()
    for kind, rx, post in RULES:
        m = rx.search(m0)
        if m:
            g = [x for x in m.groups() if x is not None] if post is None else post(m.groups())
            return kind + ":" + "|".join(g)
    return "other:" + m0[:80]
