#!/bin/bash
# quick tier of every check under several seeds, on the clean snapshot (results under .cache/alt-tmp_verif-snap)
cd /verif
for seed in "$@"; do
  for p in C01 C02 C03 C04 C05 C06 C07 C08 C09 C10 C11 C12 C13 C14 C15 C16 C17 C18 C19 C20; do
    s=$(date +%s)
    out=$(VERIF_SEED=$seed VERIF_REPO=/tmp/verif-snap timeout 1800 ./check $p 2>&1); rc=$?
    v=$(echo "$out" | grep -cE '^VIOLATION')
    echo "seed=$seed $p rc=$rc $(( $(date +%s) - s ))s $v violation(s)"
    [ "$v" != "0" ] && echo "$out" | grep -E "^VIOLATION|Traceback" | head -2
    [ "$rc" != "0" ] && [ "$v" = "0" ] && echo "$out" | tail -3
  done
done
