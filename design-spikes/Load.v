From Coq Require Import ZArith Lia Bool List.
Import ListNotations.
Open Scope Z_scope.
Ltac Zify.zify_post_hook ::= Z.div_mod_to_equations.

Definition byte_ok (b : Z) := 0 <= b < 256.

Definition get (data : list Z) (k : Z) : option Z := nth_error data (Z.to_nat k).

(* load_lsb0::<_, LE>::inner, DedupType wide enough (no truncation modelled in this spike) *)
Fixpoint load_loop (fuel : nat) (data : list Z) (s e i out : Z) : option Z :=
  if i <? e then
    match fuel with
    | O => None
    | S f =>
      match get data (i / 8) with
      | None => None
      | Some byte =>
        if (i mod 8 =? 0) && (i + 8 <=? e)
        then load_loop f data s e (i + 8) (Z.lor out (Z.shiftl byte (i - s)))
        else load_loop f data s e (i + 1)
               (Z.lor out (Z.shiftl (Z.land (Z.shiftr byte (i mod 8)) 1) (i - s)))
      end
    end
  else Some out.

Definition set_bit (data : list Z) (k : Z) : bool :=
  match get data (k / 8) with Some b => Z.testbit b (k mod 8) | None => false end.

Lemma byte_high_bits b k : byte_ok b -> 8 <= k -> Z.testbit b k = false.
Proof.
  intros [H0 H1] Hk. destruct (Z.eq_dec b 0) as [->|Hn]; [apply Z.testbit_0_l|].
  apply Z.bits_above_log2; [lia|]. apply Z.log2_lt_pow2; [lia|].
  apply Z.lt_le_trans with (2^8); [lia|]. apply Z.pow_le_mono_r; lia.
Qed.

Lemma testbit_1 k : 0 <= k -> Z.testbit 1 k = (k =? 0).
Proof. intros. destruct (Z.eqb_spec k 0) as [->|]; [reflexivity|].
  apply Z.bits_above_log2; simpl; lia. Qed.

Lemma load_loop_inv fuel : forall data s e i out,
  Forall byte_ok data -> 0 <= s -> s <= i -> i <= e -> e <= 8 * Z.of_nat (length data) ->
  (i = s \/ i mod 8 = 0 \/ True) ->
  (Z.of_nat fuel >= e - i) ->
  (forall j, 0 <= j -> Z.testbit out j = (j <? i - s) && set_bit data (s + j)) ->
  exists r, load_loop fuel data s e i out = Some r /\
    forall j, 0 <= j -> Z.testbit r j = (j <? e - s) && set_bit data (s + j).
Proof.
  induction fuel as [|f IH]; intros data s e i out Hd Hs Hsi Hie Hlen _ Hfuel Hout.
  - cbn [load_loop]. destruct (Z.ltb_spec i e); [lia|]. exists out; split; [reflexivity|].
    intros j Hj. rewrite Hout by lia. replace i with e by lia. reflexivity.
  - cbn [load_loop]. destruct (Z.ltb_spec i e) as [Hlt|Hge].
    2:{ exists out; split; [reflexivity|]. intros j Hj. rewrite Hout by lia. replace i with e by lia. reflexivity. }
    unfold get at 1.
    destruct (nth_error data (Z.to_nat (i / 8))) as [byte|] eqn:Hb.
    2:{ apply nth_error_None in Hb. lia. }
    assert (Hbyte : byte_ok byte).
    { rewrite Forall_forall in Hd. apply Hd. eapply nth_error_In; eauto. }
    destruct ((i mod 8 =? 0) && (i + 8 <=? e)) eqn:Hfast.
    + apply andb_true_iff in Hfast as [H8 He8]. apply Z.eqb_eq in H8. apply Z.leb_le in He8.
      apply IH; try lia; auto.
      intros j Hj. rewrite Z.lor_spec, Hout by lia.
      destruct (Z.ltb_spec j (i - s)) as [Hj1|Hj1].
      * rewrite Z.shiftl_spec_low by lia. destruct (Z.ltb_spec j (i + 8 - s)); [|lia].
        cbn. rewrite orb_false_r. reflexivity.
      * rewrite Z.shiftl_spec by lia. cbn [andb orb].
        destruct (Z.ltb_spec j (i + 8 - s)) as [Hj2|Hj2]; cbn [andb].
        -- unfold set_bit, get. replace ((s + j) / 8) with (i / 8) by lia. rewrite Hb.
           f_equal. lia.
        -- apply byte_high_bits; [assumption|lia].
    + apply IH; try lia; auto.
      intros j Hj. rewrite Z.lor_spec, Hout by lia.
      destruct (Z.ltb_spec j (i - s)) as [Hj1|Hj1].
      * rewrite Z.shiftl_spec_low by lia. destruct (Z.ltb_spec j (i + 1 - s)); [|lia].
        cbn. rewrite orb_false_r. reflexivity.
      * rewrite Z.shiftl_spec by lia. cbn [andb orb].
        rewrite Z.land_spec, testbit_1 by lia.
        destruct (Z.ltb_spec j (i + 1 - s)) as [Hj2|Hj2]; cbn [andb].
        -- replace (j - (i - s)) with 0 by lia. rewrite Z.eqb_refl, andb_true_r.
           rewrite Z.shiftr_spec by lia. unfold set_bit, get.
           replace (s + j) with i by lia. rewrite Hb. f_equal. 
        -- destruct (Z.eqb_spec (j - (i - s)) 0); [lia|]. apply andb_false_r.
Qed.
Print Assumptions load_loop_inv.
