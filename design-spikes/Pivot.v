From Coq Require Import ZArith Lia Bool.
Open Scope Z_scope.
Ltac Zify.zify_post_hook ::= Z.div_mod_to_equations.

Definition next_mult8 (x : Z) : Z := if x mod 8 =? 0 then x else x + (8 - x mod 8).
Definition b2z (b : bool) : Z := if b then 1 else 0.

Definition pivot_msb0 (s e i : Z) : Z :=
  let '(nb, pv) :=
    if i / 8 =? s / 8 then
      let nb := Z.min (next_mult8 (s + 1)) e - s in (nb, s + nb / 2)
    else
      let nb := e - next_mult8 (e - 8) in (nb, e - (nb + 1) / 2) in
  let even := b2z (nb mod 2 =? 0) in
  let diff := pv - i in
  let diff := if diff <=? 0 then diff - even else diff in
  let j := i + diff * 2 in
  if 0 <? diff then j - even else j + even.

Definition chunk_lo (s i : Z) := Z.max s (8 * (i / 8)).
Definition chunk_hi (e i : Z) := Z.min e (8 * (i / 8) + 8).

Lemma pivot_spec s e i :
  0 <= s -> s <= i < e ->
  (* loop invariant of the bit-by-bit path: either in the start byte, or in the last, partial byte *)
  (i / 8 = s / 8 \/ (i / 8 = (e - 1) / 8 /\ e mod 8 <> 0)) ->
  pivot_msb0 s e i = chunk_lo s i + chunk_hi e i - 1 - i.
Proof.
  intros Hs Hi Hinv. unfold pivot_msb0, chunk_lo, chunk_hi, next_mult8, b2z.
  destruct (i / 8 =? s / 8) eqn:E1.
  - destruct ((s + 1) mod 8 =? 0) eqn:E2;
    match goal with |- context [ (?x mod 2 =? 0) ] => destruct (x mod 2 =? 0) eqn:E3 end;
    match goal with |- context [ (?x <=? 0) ] => destruct (x <=? 0) eqn:E4 end;
    match goal with |- context [ (0 <? ?x) ] => destruct (0 <? x) eqn:E5 end; lia.
  - destruct ((e - 8) mod 8 =? 0) eqn:E2;
    match goal with |- context [ (?x mod 2 =? 0) ] => destruct (x mod 2 =? 0) eqn:E3 end;
    match goal with |- context [ (?x <=? 0) ] => destruct (x <=? 0) eqn:E4 end;
    match goal with |- context [ (0 <? ?x) ] => destruct (0 <? x) eqn:E5 end; lia.
Qed.
Print Assumptions pivot_spec.
