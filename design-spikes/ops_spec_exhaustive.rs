use device_driver::ops::*;

fn byte_idx(be: bool, len: usize, k: usize) -> usize { if be { len - 1 - k / 8 } else { k / 8 } }
fn bit_in_byte(msb0: bool, k: usize) -> usize { if msb0 { 7 - k % 8 } else { k % 8 } }
fn get_bit(be: bool, msb0: bool, d: &[u8], k: usize) -> bool { (d[byte_idx(be, d.len(), k)] >> bit_in_byte(msb0, k)) & 1 == 1 }
fn set_bit(be: bool, msb0: bool, d: &mut [u8], k: usize, v: bool) {
    let bi = byte_idx(be, d.len(), k); let b = bit_in_byte(msb0, k);
    d[bi] = (d[bi] & !(1 << b)) | ((v as u8) << b);
}
fn field_pos(msb0: bool, s: usize, e: usize, j: usize) -> usize {
    if !msb0 { s + j } else { let k = s + j; let lo = s.max(8 * (k / 8)); let hi = e.min(8 * (k / 8) + 8); lo + hi - 1 - k }
}
fn spec_load(be: bool, msb0: bool, d: &[u8], s: usize, e: usize) -> u128 {
    let mut v = 0u128; for j in 0..(e - s) { if get_bit(be, msb0, d, field_pos(msb0, s, e, j)) { v |= 1 << j; } } v
}
fn spec_store(be: bool, msb0: bool, d: &mut [u8], s: usize, e: usize, v: u128) {
    for j in 0..(e - s) { set_bit(be, msb0, d, field_pos(msb0, s, e, j), (v >> j) & 1 == 1); }
}
struct Rng(u64);
impl Rng { fn next(&mut self) -> u64 { self.0 ^= self.0 << 13; self.0 ^= self.0 >> 7; self.0 ^= self.0 << 17; self.0 } }

macro_rules! check_ty { ($t:ty, $bits:expr, $cnt:ident, $rng:ident) => {{
    for len in 1..=17usize { for s in 0..len*8 { for e in s+1..=len*8 { if e - s > $bits { continue; }
        for be in [false, true] { for msb0 in [false, true] {
            let mut d = vec![0u8; len]; for b in d.iter_mut() { *b = $rng.next() as u8; }
            let got: $t = unsafe { match (be, msb0) {
                (false,false) => load_lsb0::<$t, LE>(&d, s, e), (true,false) => load_lsb0::<$t, BE>(&d, s, e),
                (false,true) => load_msb0::<$t, LE>(&d, s, e), (true,true) => load_msb0::<$t, BE>(&d, s, e) } };
            let want = spec_load(be, msb0, &d, s, e);
            if got as u128 & (if $bits == 128 { u128::MAX } else { (1u128 << $bits) - 1 }) != want { println!("LOAD MISMATCH {} len={len} s={s} e={e} be={be} msb0={msb0} got={got:?} want={want}", stringify!($t)); return; }
            let val128: u128 = (($rng.next() as u128) << 64) | $rng.next() as u128;
            let val = val128 as $t;
            let mut d2 = d.clone(); let mut d3 = d.clone();
            unsafe { match (be, msb0) {
                (false,false) => store_lsb0::<$t, LE>(val, s, e, &mut d2), (true,false) => store_lsb0::<$t, BE>(val, s, e, &mut d2),
                (false,true) => store_msb0::<$t, LE>(val, s, e, &mut d2), (true,true) => store_msb0::<$t, BE>(val, s, e, &mut d2) } };
            spec_store(be, msb0, &mut d3, s, e, val as u128);
            if d2 != d3 { println!("STORE MISMATCH {} len={len} s={s} e={e} be={be} msb0={msb0}", stringify!($t)); return; }
            $cnt += 2;
        }}
    }}}
}}}

fn main() {
    let mut rng = Rng(0x1234_5678_9abc_def1); let mut cnt = 0u64;
    check_ty!(u8, 8, cnt, rng); check_ty!(u16, 16, cnt, rng); check_ty!(u32, 32, cnt, rng); check_ty!(u64, 64, cnt, rng); check_ty!(u128, 128, cnt, rng);
    check_ty!(i8, 8, cnt, rng); check_ty!(i16, 16, cnt, rng); check_ty!(i32, 32, cnt, rng); check_ty!(i64, 64, cnt, rng); check_ty!(i128, 128, cnt, rng);
    println!("all agree, {cnt} evaluations");
}
