import subprocess, re, sys, random
CLI="/root/scratch/target/debug/device-driver-cli"
random.seed(1)
def phys(be, msb0, ln, k):
    bi = ln-1-k//8 if be else k//8
    b = 7-k%8 if msb0 else k%8
    return bi, b
def spec_int(size, be, msb0, v):
    ln=(size+7)//8
    le=list(v.to_bytes(16,'little'))
    # reject if any set-bit index >= size is 1, numbering per C01 on a 16 byte LE array / or bytes beyond
    arr = le[:ln]
    if any(le[ln:]): return None
    final = arr[::-1] if be else arr
    for k in range(size, ln*8):
        bi,b = phys(be,msb0,ln,k)
        if (final[bi]>>b)&1: return None
    return final
def spec_arr(size, be, msb0, arr):
    ln=(size+7)//8
    if len(arr)!=ln: return None
    for k in range(size, ln*8):
        bi,b = phys(be,msb0,ln,k)
        if (arr[bi]>>b)&1: return None
    return arr
def reg(name, size, be, msb0, rv):
    return f"register {name} {{ const ADDRESS = 0; const SIZE_BITS = {size}; type ByteOrder = {'BE' if be else 'LE'}; type BitOrder = {'MSB0' if msb0 else 'LSB0'}; const ALLOW_ADDRESS_OVERLAP = true; const RESET_VALUE = {rv}; v: bool = 0, }}"
def run(text):
    open("c08.dsl","w").write("config { type RegisterAddressType = u8; }\n"+text)
    p=subprocess.run([CLI,"-m","c08.dsl","-d","Dev"],capture_output=True,text=True)
    return p.returncode, p.stdout
cases=[]
for size in list(range(1,129)):
    ln=(size+7)//8
    for be in (0,1):
        for msb0 in (0,1):
            # integer forms: random in-range, each single bit near boundary
            for bit in sorted(set([0,size-1,size,min(size+1,127), ln*8-1, min(ln*8,127)])):
                if bit>127: continue
                cases.append((size,be,msb0,('int',1<<bit)))
            cases.append((size,be,msb0,('int',random.getrandbits(size))))
            # array forms: single physical bit in last partial byte region
            for _ in range(3):
                arr=[random.getrandbits(8) for _ in range(ln)]
                cases.append((size,be,msb0,('arr',arr)))
                z=[0]*ln; k=random.randrange(0,ln*8); bi,b=phys(be,msb0,ln,k); z[bi]|=1<<b
                cases.append((size,be,msb0,('arr',z)))
            cases.append((size,be,msb0,('arr',[0]*(ln+1))))
print(len(cases),"cases")
acc=[];bad=0
for i,(size,be,msb0,(kind,v)) in enumerate(cases):
    exp = spec_int(size,be,msb0,v) if kind=='int' else spec_arr(size,be,msb0,v)
    rv = hex(v) if kind=='int' else "["+",".join(map(str,v))+"]"
    if exp is None:
        rc,out=run(reg("R",size,be,msb0,rv))
        if rc==0: print("SHOULD REJECT",size,be,msb0,kind,rv); bad+=1
    else:
        acc.append((f"R{i}",size,be,msb0,rv,exp))
# batch accepted
for chunk in range(0,len(acc),300):
    part=acc[chunk:chunk+300]
    rc,out=run(",\n".join(reg(n,s,b,m,rv) for n,s,b,m,rv,_ in part))
    if rc!=0: 
        print("BATCH REJECTED", out[:300]); 
        for n,s,b,m,rv,e in part:
            rc2,o2=run(reg(n,s,b,m,rv))
            if rc2!=0: print("SHOULD ACCEPT",s,b,m,rv,o2[:200]); bad+=1
        continue
    for n,s,b,m,rv,e in part:
        mm=re.search(r"pub struct "+n+r" \{.*?pub const fn new\(\) -> Self \{\s*Self \{\s*bits: \[(.*?)\]", out, re.S)
        got=[int(x.strip().replace('u8','')) for x in mm.group(1).split(',') if x.strip()]
        if got!=e: print("BYTES DIFFER",s,b,m,rv,got,e); bad+=1
print("accepted",len(acc),"bad",bad)
