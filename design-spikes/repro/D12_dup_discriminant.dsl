config { type RegisterAddressType = u8; }
register Foo {
    const ADDRESS = 3;
    const SIZE_BITS = 8;
    a: uint as try enum E { A = 1, B = 1 } = 0..4,
},
