config { type RegisterAddressType = u8; }
ref A = register X1 { const ADDRESS = 1; },
ref B = register X2 { const ADDRESS = 2; },
ref C = register X3 { const ADDRESS = 3; },
ref D = register X4 { const ADDRESS = 4; },
