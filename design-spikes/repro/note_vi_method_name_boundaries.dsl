config { type RegisterAddressType = u8; type NameWordBoundaries = [Underscore]; }
register my_Reg2a {
    const ADDRESS = 3;
    const SIZE_BITS = 8;
    someField_x1: uint as enum myEnum_t { varA1, var_b } = 0..1,
},
ref other_Ref9 = register my_Reg2a { const ADDRESS = 4; const RESET_VALUE = 1; },
