config { type RegisterAddressType = u8; }
block A {
    const ADDRESS_OFFSET = 0;
    register Inner {
        const ADDRESS = 10;
        const SIZE_BITS = 8;
        v: uint = 0..8,
    },
},
ref B = block A {
    const ADDRESS_OFFSET = 250;
}
