config { type RegisterAddressType = u8; }
register X {
    const ADDRESS = 10;
    const SIZE_BITS = 8;
    v: uint = 0..8,
},
block B {
    const ADDRESS_OFFSET = 250;
    ref Y = register X { type Access = RO; },
}
