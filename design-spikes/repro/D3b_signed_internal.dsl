config { type RegisterAddressType = i8; }
register R {
    const ADDRESS = -100;
    const SIZE_BITS = 8;
    const REPEAT = { count: 3, stride: 100 };
    v: uint = 0..8,
}
