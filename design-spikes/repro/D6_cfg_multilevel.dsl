config {
    type RegisterAddressType = u8;
}
#[cfg(feature = "a")]
block A {
    #[cfg(feature = "b")]
    block B {
        register R1 {
            const ADDRESS = 1;
            const SIZE_BITS = 8;
            v: uint = 0..8,
        },
    },
},
register R2 {
    const ADDRESS = 2;
    const SIZE_BITS = 8;
    v: uint = 0..8,
},
block C {
    register R3 {
        const ADDRESS = 3;
        const SIZE_BITS = 8;
        v: uint = 0..8,
    },
}
