config { type RegisterAddressType = u8; }
block A {
    ref B = block A { const ADDRESS_OFFSET = 1; },
}
