config { type RegisterAddressType = u8; }
block Blk {
    const ADDRESS_OFFSET = 0;
    const REPEAT = { count: 3, stride: 100 };
    register Inner {
        const ADDRESS = 60;
        const SIZE_BITS = 8;
        v: uint = 0..8,
    },
}
