config {
    type RegisterAddressType = u8;
    type BufferAddressType = u8;
    type DefaultRegisterAccess = RO;
    type DefaultFieldAccess = RO;
    type DefaultBufferAccess = RO;
    type DefaultBitOrder = MSB0;
}
register Foo {
    const ADDRESS = 3;
    const SIZE_BITS = 8;
    value: uint = 0..4,
},
buffer Buf = 1
