config { type RegisterAddressType = u8; }
register X {
    const ADDRESS = 1;
    const SIZE_BITS = 8;
    v: uint = 0..8,
},
register Y {
    const ADDRESS = 2;
    const SIZE_BITS = 8;
    const ALLOW_ADDRESS_OVERLAP = true;
    v: uint = 0..8,
},
ref Z = register X { const ADDRESS = 2; const ALLOW_ADDRESS_OVERLAP = true; },
