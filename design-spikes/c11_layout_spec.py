import subprocess, random
CLI="/root/scratch/target/debug/device-driver-cli"
random.seed(7)
def run(text):
    open("c11.dsl","w").write(text)
    p=subprocess.run([CLI,"-m","c11.dsl","-d","Dev"],capture_output=True,text=True)
    return p.returncode, p.stdout, p.stderr
bad=0; n=0; acc=0
for t in range(700):
    size=random.choice([1,2,7,8,9,12,16,17])
    nf=random.randint(1,4)
    allow=random.random()<0.3
    gbo=random.random()<0.3; obo=random.random()<0.4
    iscmd=random.random()<0.3
    fields=[]; 
    for i in range(nf):
        base=random.choice(["uint","uint","int","bool"])
        s=random.randint(0,size+1); 
        form=random.choice(["ex","in","single"]) if base=="bool" else random.choice(["ex","in"])
        if base=="bool" and random.random()<0.6: 
            e=s+1 if form!="single" else s
        else:
            e=random.randint(max(0,s-1),min(size+2,s+6))
        conv = (base!="bool" and random.random()<0.0)
        fields.append((f"f{i}",base,s,e,form))
    def rng(f):
        n_,b,s,e,form=f
        if form=="ex": return f"{s}..{e}", (s,e)
        if form=="in":
            if e-1<0: return f"{s}..{e}", (s,e)
            return f"{s}..={e-1}", (s,e)
        return f"{s}", (s,s)
    ftxt=[];franges=[]
    for f in fields:
        txt,(s,e)=rng(f); ftxt.append(f"{f[0]}: {f[1]} = {txt}"); franges.append((f[1],s,e))
    # oracle
    ok=True
    eff=[]
    for b,s,e in franges:
        if b=="bool" and s==e: e=s+1
        eff.append((b,s,e))
    if not (gbo or obo) and size>8: ok=False
    for b,s,e in eff:
        if b=="bool" and e-s!=1: ok=False
        if not (s<e and e<=size): ok=False
    if not allow:
        for i in range(len(eff)):
            for j in range(i+1,len(eff)):
                a,c=eff[i],eff[j]
                if a[1]<c[2] and c[1]<a[2]: ok=False
    cfg="config { type RegisterAddressType = u8; type CommandAddressType = u8; " + ("type DefaultByteOrder = BE; " if gbo else "") + "}\n"
    items=("type ByteOrder = LE; " if obo else "") + (f"const ALLOW_BIT_OVERLAP = true; " if allow else "")
    if iscmd:
        body=f"command C {{ {items} const ADDRESS = 1; const SIZE_BITS_IN = {size}; in {{ {', '.join(ftxt)} }} }}"
    else:
        body=f"register R {{ {items} const ADDRESS = 1; const SIZE_BITS = {size}; {', '.join(ftxt)} }}"
    rc,out,err=run(cfg+body)
    n+=1
    got = (rc==0)
    if "compile_error" in out and rc==0: got=False
    if rc not in (0,1,101): print("CRASH",rc,body); bad+=1; continue
    acc+=got
    if got!=ok:
        print("MISMATCH expected",ok,"got",got,body, out[:150].replace("\n"," ")); bad+=1
print("cases",n,"accepted",acc,"bad",bad)
